#!/bin/bash
# Runs the repository's stable baseline (guard OFF) and compares the pass set with /root/.vp/BASELINE.json.
unset PYREX_VERIF
out="$(mktemp -d /tmp/vmc-baseline.XXXXXX)"
cd "${PYREX_SRC:-/repo}" || exit 2
/venv/bin/python -m pytest -ra -q -p no:cacheprovider --timeout=900 --continue-on-collection-errors --junitxml="$out/junit.xml" >"$out/log" 2>&1
/venv/bin/python - "$out/junit.xml" <<'PY'
import json, sys, xml.etree.ElementTree as ET
base = set(json.load(open('/root/.vp/BASELINE.json'))['stable_pass'])
passed = set()
for tc in ET.parse(sys.argv[1]).getroot().iter('testcase'):
    if not any(ch.tag in ('failure', 'error', 'skipped') for ch in tc):
        passed.add('%s::%s' % (tc.get('classname').replace('.', '::', 0), tc.get('name')))
# BASELINE names look like tests.test_x.TestY::test_z
norm = set()
for tc in ET.parse(sys.argv[1]).getroot().iter('testcase'):
    if not any(ch.tag in ('failure', 'error', 'skipped') for ch in tc):
        norm.add('%s::%s' % (tc.get('classname'), tc.get('name')))
missing = sorted(base - norm)
print('baseline stable_pass=%d passed_now=%d missing=%d' % (len(base), len(norm), len(missing)))
for m in missing[:20]:
    print('MISSING', m)
sys.exit(1 if missing else 0)
PY
rc=$?
tail -3 "$out/log"
rm -rf "$out"
exit $rc
