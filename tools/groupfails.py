#!/venv/bin/python
"""tools/groupfails.py PID [tier]: run all cases and print failures grouped by (check, selected tags)"""
import collections, sys, os
sys.path.insert(0, "/verif")
os.environ.setdefault("PYREX_VERIF", "1")
from vmc.engine import src, pool; src.activate()
from vmc import run
pid = sys.argv[1]; tier = sys.argv[2] if len(sys.argv) > 2 else "quick"
mod = run._load(pid)
cs = mod.cases(tier, 0)
if len(sys.argv) > 3:
    cs = cs[::int(sys.argv[3])]
res = pool.pmap(run._eval, cs, chunk=getattr(mod, "CHUNK", None))
c = collections.Counter(); ex = {}
for r in res:
    for f in r["fails"]:
        t = f.get("tags", {})
        keys = os.environ.get("TAGS"); k = (f["check"],) + tuple(sorted((a, str(b)) for a, b in t.items() if a not in ("group",) and (keys is None or a in keys.split(","))))
        c[k] += 1
        if k not in ex or len(f["what"]) < len(ex[k]): ex[k] = f["what"]
for k, v in sorted(c.items(), key=lambda kv: (kv[0][0], -kv[1])):
    print(v, k[0], dict(k[1:]))
    print("     ", ex[k][:int(os.environ.get("W", "500"))])
