# exec'd by mkmanifest.py: one C(...) entry per claimed property
C("C05", "exploration",
  "exhaustive finite input lattice (length x step x offset x force_real x response x input) against a longhand-DFT reference",
  "All points of a declared finite lattice of signal lengths (2..2049, odd and even), dyadic sampling steps, grid offsets, "
  "13-15 response functions (vectorised, scalar-only raising TypeError/ValueError, list-valued, complex, positive-frequency-only, "
  "pure delays/advance) and inputs (every unit impulse for N<=17) are filtered by the real code and compared with "
  "Re IDFT(R*DFT(pad x)) computed by an O(N^2) DFT, plus linearity, response homogeneity, identity, bit-identical offset "
  "invariance, energy non-increase and no-wrap delay. The claim is exactly: all lattice points.",
  "numpy.fft trusted as reference above N=65; continuum of signals/responses covered only on the lattice", "DESIGN.md §4 C05")
C("C04", "model_checking",
  "explicit-state BFS over pools of real signal objects with deepcopy snapshots, reference model compared after every transition",
  "Breadth-first search from all 169 ordered pairs of a 13-entry signal catalogue (all three classes + a subclass, all value types, "
  "length 1/2, shifted and 2^40*dt grids) through a 78-action alphabet (copy, re-grid on 5 grids incl. a list argument, +, 0+, "
  "scalings, in-place scalings, shift, type assignment, in-place poke, set_buffers, filter) to depth 2 (quick) / 3 (thorough); after "
  "every transition every register is compared with a plain-list reference model, every array handed to the library must be unchanged, "
  "and no two distinct registers or argument arrays may share memory. Plus the full constructor lattice len(times) x len(values) in 0..4.",
  "canonical key = reference models of all registers + identity partition (futures depend on nothing else); deepcopy preserves aliasing "
  "between registers; result class of '+' not constrained", "DESIGN.md §4 C04")
C("C06", "exploration",
  "stateless choice-tree exploration (full product of operation sequences x read masks) on real objects with a differential fresh-object oracle and an eager reference model",
  "Every operation sequence up to depth 2 (quick) / 3-4 (thorough) over a 26-operation alphabet of public mutators (shift, scalings, filters with "
  "and without force_real, whole / fractional / forced set_buffers, resample, times assignment incl. in-place and same-length-other-step, with_times "
  "sub/super/stretched grid, + other signals (plain, filtered, shifted), copy, operations on derived children) times every read mask "
  "is executed on 10 kinds of function-backed signals (plain, two-component, memoising function, grid-dependent function, decimal step, ZHS, AVZ, "
  "ARZ, FFT/Full thermal noise with owned randomness), and every attribute-assignment sequence x read mask on five tracer and four path kinds. "
  "Each execution is compared with the same history replayed on a fresh object without intermediate reads, ray objects also with a newly "
  "constructed object having the final defining attributes; plain FunctionSignals are also compared with an eager longhand-DFT model.",
  "in-place element writes and mutation of the ice object are outside the alphabet; exhaustive only up to the stated depth", "DESIGN.md §4 C06")
C("C16", "exploration",
  "exhaustive finite input lattice (model x depth x frequency x scalar/array shape) with algebraic self-consistency oracles",
  "For 10 ice models (Antarctic, Arasim, Greenland, two custom exponential profiles, three UniformIce boundary-index settings, a 2- and a "
  "3-layer LayeredIce) every depth of a lattice with one point per range case split (above, exactly on and 2^-20/2^-10 either side of each "
  "bound and layer boundary, inside, below) x 7 frequencies straddling the 1 GHz coefficient switch x all 8 scalar/array shape combinations "
  "is evaluated: scalar == array element, declared indices outside the range, monotone inside, logarithmic inverse with its conditioning "
  "bound and clamping, gradient vs central difference, attenuation positive/finite, documented shapes, every matrix entry == scalar "
  "evaluation, layered dispatch (lo, hi] with inclusive bottom.",
  "finite lattice only; attenuation positivity demanded inside the valid range", "DESIGN.md §4 C16")
C("C15", "exploration",
  "exhaustive finite input lattice (radii per shell-edge case split; chords = depth x offset x nadir ladder x azimuth x |direction| x step) against an exact shell-split Gauss-Legendre chord integral",
  "Both Earth models. Density: every shell boundary, +-1 ulp, +-1 m, midpoints, 0, negative, >= R, as scalars and as one array, against the "
  "published piecewise polynomial. Slant depth: 6 endpoint depths (incl. above the surface) x 2 horizontal offsets x 22 nadir angles (vertical, "
  "grazing 89.9/90/90.1, upward) x 5 azimuths x 2 direction norms x 2 (quick) / 4 (thorough) steps compared with the exact chord integral "
  "within the first-order discretisation bound 110*h*(rho_exit/2 + sum of jumps crossed); zero for chords that miss; azimuth/norm invariance; "
  "monotone in nadir angle; lattice-wide convergence with the step.",
  "finite lattice; the bound is the derived first-order trapezoid error, so a defect smaller than it is by the property's own wording not a violation",
  "DESIGN.md §4 C15")
C("C19", "model_checking",
  "explicit enumeration of all detector expression trees up to a size bound on the real classes, compared with a flat-list reference model after every operation",
  "Every leaf sequence of length 1..3 (+ a reduced 4-leaf layer; thorough: all of length 4) over six leaf kinds (two Detector subclasses with "
  "different build/trigger signatures, a nesting Grid, bare antenna, antenna list, AntennaSystem) x every parenthesisation x every assignment "
  "of + / += to the internal nodes (and sum()) x 5 keyword sets is built with the real classes; list/len/index must equal the flat "
  "construction-order list, keyword arguments must reach exactly the sub-detectors that accept them, and for every hit pattern (all 2^n "
  "for n<=5, plus a noise-only-hit state) trigger == any(hit) (also by MC truth), clear empties everything; antennas above the surface "
  "are rejected for every leaf kind. History layer: every sequence (length <= 2-3, thorough 2-4) of {observe, build the composition, build leaf i} "
  "on every expression, then len / indexing / iteration must equal an independent walk over the leaves.",
  "leaf detectors have explicit signatures (no **kwargs); an unknown keyword may be refused or dropped", "DESIGN.md §4 C19")
C("C14", "exploration",
  "exhaustive lattices over the owned random draws + deviation-bounded choice-tree exploration of the secondary loop + explicit-state BFS over event-tree histories, all on the real classes",
  "Six neutrino types x both interaction models x 7 energies x {forced CC, forced NC, chosen}: the interaction-type draw and the inelasticity draws "
  "are swept over a K+1 point lattice (K=16 quick / 64 thorough, incl. the end value 0.0 and points 2^-30 either side of every published threshold) "
  "as a full product under an owned numpy.random; kind == threshold of the published fraction, CDF of the numerically integrated published "
  "density at y equals the draw, fraction constraints per flavour/kind. Secondary interactions: every draw a choice point (poisson menu {0,1,2}, "
  "u menu), all paths with <= 2 (quick) / 3 (thorough) non-default answers. Cross sections on a 361-point energy ladder against the published "
  "parametrisations, monotone, CC+NC = total (CTW), L = 1/(N_A sigma). Event trees: BFS over all add_children histories up to 6/7 particles "
  "with a parent-vector reference model checked after every transition.",
  "verifies the transformation from uniform variates, not the generator; constants transcribed by hand from the papers", "DESIGN.md §4 C14")
C("C09", "model_checking",
  "explicit-state BFS with deepcopy snapshots over real Antenna/DipoleAntenna/AntennaSystem objects, reference model compared after every transition",
  "From the empty state of 10 object kinds (threshold Antenna, DipoleAntenna, AntennaSystem with x2 front end, AntennaSystem with a "
  "delaying front end and lead-in, AntennaSystem whose front end hands its output back on a shifted time grid (one level shallower); each noiseless and noisy under an owned random stream) every sequence of 21 actions (8 receive "
  "variants over overlapping/disjoint/nested windows, three kinds of reads, full_waveform / is_hit_during on windows whose ends sit exactly on "
  "signal edges, make_noise, clear, clear(reset_noise)) is explored to depth 5 (noiseless) / 3 (noisy) in the quick tier and 6 / 5 in the thorough tier, sharded by first action. After "
  "every transition: signal/waveform counts, grids, triggered list == filter of cached waveforms in order, is_hit, emptiness after clear, "
  "noiseless waveform == sum of received signals interpolated (through the front end), noise identical at equal absolute times until reset "
  "and different after, full_waveform - noise == noiseless sum.",
  "canonical key = model state + sizes of the implementation's caches (so states with corrupted hidden caches are never merged away); "
  "cached waveforms may reflect the signals present at first read or all signals", "DESIGN.md §4 C09")
C("C08", "exploration",
  "exhaustive orbit lattice under the cube rotation group (+2 generic rotations) evaluated on the real antennas against a rotation-invariant closed-form oracle with a longhand-DFT filter reference",
  "For a direction- and polarization-dependent Antenna subclass, DipoleAntenna and an AntennaSystem wrapping each: every orientation of the "
  "orbit (9 quick / 48 + 2 generic thorough) x all 26 arrival directions x all 26 polarization vectors of {-1,0,1}^3 must give "
  "filtered(signal) x directional gain x polarization gain x efficiency (/ antenna factor for fields) with the gains written as dot products "
  "(so rotation covariance holds edge by edge); dipole gains sin(theta) and z.p; plus the signal lattice (4 value types x 4 signals x force_real: "
  "rejection of undefined/power with nothing stored, linearity, input untouched) and receive of (s,p) pairs == sum of responses.",
  "finite lattice of directions; gain pattern of the test antenna regular at the poles", "DESIGN.md §4 C08")
C("C17", "exploration",
  "exhaustive configuration lattice with every numpy.random draw owned; single (quick) / pairs of (thorough) draws swept over a lattice by a deviation-bounded choice tree; oracle = the published cosine sum",
  "Both noise classes x N in {16,17,64,65} x 4 grid offsets (incl. 0 and 2^20 dt) x 4 bands (inside, touching 0, past Nyquist, between bins) x "
  "4 amplitude specifications x uniqueness 1..3 x rms given or from (T,R): frequencies inside the band, amplitudes as specified (default = "
  "Rayleigh(1/sqrt2) of the owned variates, so E[a^2]=1), rms = sqrt(kTR*bandwidth), waveform == sum a_k cos(2 pi f_k (t - t_ref) -+ phi_k) "
  "sqrt(2/n) rms to 1e-11, re-gridding on sub/super/shifted windows reproduces stored values at shared times, RMS over a period, no DFT bin "
  "outside the band, same random script -> identical basis and waveform, different stream -> different. Open finding K1 (Nyquist bin half weight) "
  "is recognised by its exact residual signature.",
  "distribution claims reduced to exact statements about the map from uniform variates; FFT noise compared at sample times", "DESIGN.md §4 C17")
C("C07", "exploration",
  "deviation-bounded exhaustive lattice (every coordinate alone, quick; every pair of coordinates as a full product, thorough) on dyadic time grids where the scaling laws are exact",
  "For ARZ, AVZ and ZHS: around a base point, energy x (em,had) fractions (incl. zero energy) x 23 viewing angles (theta_c +- ladder, mirrored "
  "negative angles, 0, pi/2, pi) x 3 distances x 4 vertex depths x N in {256,257,1024} x dt in {2^-34,2^-36} x grid offsets x shower times are "
  "explored with deviation bound 1 (quick) / 2 (thorough); at every point: finite, right length, field*R identical for all R, v(-theta)=v(theta), "
  "unchanged under joint shifts of grid and t0 (up to 2^24 samples), moved by k samples when t0 moves by k samples, all-zero for zero energy. "
  "Angle ladders: on-cone peak maximal and non-increasing on both sides; EM on-cone peak/E constant over 1e5..1e11 GeV.",
  "monotone-amplitude claim only on the declared ladder with dt<=2^-34 s, E>=1e9 GeV; tolerance 1e-10 of the peak (FFT convolution noise)",
  "DESIGN.md §4 C07")
C("C13", "exploration",
  "exhaustive lattices over the owned random draws (bijection onto equal-measure cells), exit-point lattice against an independent interval-arithmetic intersection, deviation-bounded choice tree over every draw of create_event, BFS over ListGenerator histories",
  "Vertices: the K^3 midpoint lattice of the three draws maps one-to-one onto the K^3 equal-volume cells of the cylinder and of the box (K=16/48); "
  "directions onto equal-solid-angle cells; flavour/antiparticle = threshold function of the two draws incl. points 2^-30 either side of every "
  "configured threshold. Exit points for 2 cylinders and 2 boxes x interior/face/corner vertices x 30 directions against slab/quadratic interval "
  "intersection plus the stated relations. create_event end to end for shape x shadow x interaction model x energy (constant/callable) x flavour "
  "ratio x source with every draw a choice point (menu incl. 0.0), deviation bound 1/2: geometry follows from the draws, survival weight = "
  "exp(-X/L) with X from the exact chord integral (C15 bound), interaction weight formula from independent chords, shadow acceptance and every "
  "rejected throw re-derived, count = throws. ListGenerator: BFS over create/set-count histories, loop on/off. Open findings K7, K8.",
  "distributional claims as exact statements about the map from uniform variates; secondaries off in the event tree", "DESIGN.md §4 C13")
C("C11", "model_checking",
  "exhaustive history tree of add()/rejected-add sequences x configuration product, each replayed on the real writer into a fresh file and read back with the real reader against a reference event log",
  "Configurations: valid write_* flag combinations within deviation bound 2 of the defaults (quick; all 24 thorough) x 9 require_trigger settings "
  "(bool, each single key, all keys) x detector sizes 1..3. Histories: every sequence of length <= 2 (quick) / 3 (thorough, reduced alphabet) over 7 "
  "event specs (1-2 particles; bool / dict / extra-key / per-waveform-list triggers; unequal ray and waveform counts per antenna incl. 0) and 5 "
  "argument-validation faults. Every history is written with HDF5Writer into a fresh file and read back sequentially: event count == accepted "
  "adds, per-event particles, rays + polarizations, global and component triggers (also per waveform), noise bases, waveforms equal the "
  "reference log or are absent where the options say so; every (start,length) of /event_indices lies inside its dataset; rejected adds "
  "(which must be exactly the faulty ones) leave earlier and later events intact.",
  "ray paths are recording stubs with the real metadata keys; I/O errors in the middle of an add are not in the fault alphabet; files "
  "without any particle table are outside the alphabet", "DESIGN.md §4 C11")
C("C12", "model_checking",
  "exhaustive enumeration of all access paths (chunk sizes, indices, slice spellings x steps, append-session splits, generator file lists) on real files, differential against the sequential pass",
  "For a family of files (3 configurations x 6-/4-/2-event sequences with unequal per-event row counts) written by the C11 driver: iteration with "
  "every slice_range 1..n+1; every index -n..n-1 and both out-of-range ones; every slice 0<=start<stop<=n in every negative/None spelling x "
  "step in {None,1,2,3} x reader chunk size {None,2}; every one of the 2^(n-1)-1 splits of the add sequence into append sessions x modes a / r+ "
  "(also total thrown and index-table bounds); FileGenerator over every ordered list of 1-2 files x slice_range in {1..5,100} (particles replayed "
  "field by field, StopIteration, count monotone and equal to the stored totals at file ends). Every access path must return, event for event, "
  "what one sequential single-chunk pass returns (which is itself checked against the reference log). History layer: every sequence of <= 2 "
  "(thorough 3) access operations out of 8 on ONE open file, event objects from integer indexing re-observed at the end; append sessions also "
  "with the file read through between sessions.",
  "zero-event files outside the alphabet; differential baseline = sequential pass validated against C11's reference log", "DESIGN.md §4 C12")
C("C01", "exploration",
  "exhaustive finite lattice of geometries x tracers against an independent RK4 integration of the eikonal ray equations launched in the reported direction",
  "Ice in {Antarctic; thorough also Greenland and two custom exponential profiles} x all ordered pairs of 11 depths either side of z_uniform x "
  "horizontal separations {0, 0.01, 0.5, 5, 50, 200, 600, 1500, 3000} + {0.9, 0.99, 0.999} x the tracer's own direct and indirect reach. "
  "Specialized tracer on all points, Basic tracer (dz 1, 4; thorough also 0.25) on legs spanning >= 20 dz. Each reported solution is "
  "launched from the source in its reported emitted direction and marched with RK4 (surface reflection with split steps): the flagged phase "
  "(before / after turning or reflecting) must reach the receiver, with arc length == path_length, integral n ds/c == tof, tangent == "
  "received direction, n sin(theta) equal at both ends, azimuth towards the receiver, count in {0,2}, exists == non-empty, second solution "
  "never direct. Tolerances per conditioning class (DESIGN C01); open findings K4, K5, K6, K10 are identified by region tags.",
  "RK4 marcher (4000/6000 steps) is the trusted reference; Basic tracer tolerances are 3x calibrated lattice-wide maxima (it is a coarse "
  "integrator); a defect below the stated tolerance is not detected", "DESIGN.md §4 C01")
C("C02", "model_checking",
  "explicit-state BFS over the orbit graph of endpoint pairs under {swap, two translations, rotations by 90/180/37 degrees}, edge relation checked with the real tracers on every edge",
  "Base geometries (depth pairs x separations, origin offset, non-axis-aligned azimuth) for the Specialized and Basic(dz=1) tracers, the Uniform "
  "tracer with 0..3 reflections and two Layered stacks; BFS to depth 2 over six generators, states merged by coordinates. On every edge: same "
  "number of solutions; swap: equal path length, time of flight, attenuation at 100/500 MHz, emitted = -received' and received = -emitted'; "
  "translation/rotation: equal lengths/times/attenuations, directions rotated with the geometry; exists == non-empty; gradient tracers "
  "report 0 or 2 solutions. Solutions are matched across an edge by time of flight and direction. Open finding K4b (near-vertical).",
  "tolerances: exact generators 1e-9 (Specialized 1e-6: root finding), swap 2e-6, attenuation in log space", "DESIGN.md §4 C02")
C("C18", "exploration",
  "exhaustive finite lattice of uniform-ice configurations and layered stacks against the image method, joint-by-joint Snell/mirror checks from the reported vectors, and the unsplit medium's tracer",
  "UniformIce: 2 ranges x 2 indices x 3 boundary-index settings x 2 horizontal offsets x 9 depth pairs x 4 separations x max_reflections 0..3: "
  "the solution set is exactly the image-method set (no reflection off a boundary without index), path length and directions are those of the "
  "unfolded straight line, tof = nL/c, reflection points lie on the boundary planes and on the unfolded line. Layered: uniform|uniform and "
  "Antarctic|Antarctic split at -100/-400/-777 m: every unsplit solution has a layered counterpart with equal length, time, directions and "
  "Fresnel factors (unit transmission), every additional solution reflects off the fictitious boundary with amplitude 0; stacks U|U, U|U|U, U|A: "
  "every solution is a continuous chain from source to receiver, joints on boundaries, n sin(theta) conserved or mirrored at each joint, "
  "azimuth continuous, sums of sub-path lengths/times, Fresnel factors == product of the joint coefficients recomputed from the vectors.",
  "layers are constructed with neighbour-consistent index_above/index_below; exponential split restricted to class W", "DESIGN.md §4 C18")
C("C03", "exploration",
  "exhaustive finite lattice (ray solutions of all tracers x signals x polarizations x interpolation steps) against a longhand-DFT reconstruction and an independent line integral of the attenuation",
  "12 geometries covering all four tracers (direct, refracted, surface-reflected incl. total internal reflection, exactly and almost vertical, "
  "Greenland ice, uniform ice with two reflections, two layered stacks) x N in {64,65} x 4 input signals x 6 polarization vectors (incl. non-unit) x "
  "5 attenuation-interpolation settings: output grids == input grid + tof exactly; input untouched; output == Re IDFT(A(|f|) r (pol.u) DFT(pad x)) to "
  "1e-10 (within the interpolation bound A(f 10^-s) - A(f 10^s) otherwise); additivity and homogeneity in signal and polarization; attenuation in "
  "(0,1], even in f, non-increasing, equal to an independent quadrature of ds/L_att along the RK4-marched ray / straight legs; Fresnel "
  "coefficients equal the standard formulas recomputed from the geometry, |r| <= 1; output energy <= |pol|^2 input energy; returned vectors "
  "unit, orthogonal, transverse. Open finding K2 (exactly vertical rays).",
  "layered-stack transmissions may exceed amplitude 1 (power flux conserved): passivity not demanded there", "DESIGN.md §4 C03")
C("C10", "exploration",
  "deviation-bounded exhaustive configuration lattice of the real kernel (every coordinate alone and every pair, quick; triples thorough), each delivered signal recomputed from the public pieces",
  "Nine configuration coordinates (7 tracer x ice combinations covering all four shipped tracers, 3 Askaryan models, 5 generators incl. random ones "
  "under an owned stream and a FileGenerator, off-cone cut, weight cut, attenuation interpolation, writer none/recording stub/real HDF5, triggers "
  "none/function/dict, antenna sets incl. an antenna in the air): all configurations within deviation bound 2 (250; thorough 3) of the base, two "
  "consecutive events each. Per antenna: exactly one new signal per ray solution of a freshly built tracer for every particle passing the weight "
  "cuts, on signal_times + tof, all-zero iff off-cone, else equal to apply_response(propagate(fresh pulse)); the ray paths and polarizations "
  "handed to the writer line up one-to-one with those signals; event identity; events_thrown; trigger result == supplied function(s); "
  "a real HDF5 file written through the kernel is readable with the right event count.",
  "the building blocks used by the oracle are themselves subject of C01-C08", "DESIGN.md §4 C10")
