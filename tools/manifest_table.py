# exec'd by mkmanifest.py: one C(...) entry per claimed property
C("C05", "exploration",
  "exhaustive finite input lattice (length x step x offset x force_real x response x input) against a longhand-DFT reference",
  "All points of a declared finite lattice of signal lengths (2..2049, odd and even), dyadic sampling steps, grid offsets, "
  "13-15 response functions (vectorised, scalar-only raising TypeError/ValueError, list-valued, complex, positive-frequency-only, "
  "pure delays/advance) and inputs (every unit impulse for N<=17) are filtered by the real code and compared with "
  "Re IDFT(R*DFT(pad x)) computed by an O(N^2) DFT, plus linearity, response homogeneity, identity, bit-identical offset "
  "invariance, energy non-increase and no-wrap delay. The claim is exactly: all lattice points.",
  "numpy.fft trusted as reference above N=65; continuum of signals/responses covered only on the lattice", "DESIGN.md §4 C05")
