# exec'd by mkmanifest.py: one C(...) entry per claimed property
C("C05", "exploration",
  "exhaustive finite input lattice (length x step x offset x force_real x response x input) against a longhand-DFT reference",
  "All points of a declared finite lattice of signal lengths (2..2049, odd and even), dyadic sampling steps, grid offsets, "
  "13-15 response functions (vectorised, scalar-only raising TypeError/ValueError, list-valued, complex, positive-frequency-only, "
  "pure delays/advance) and inputs (every unit impulse for N<=17) are filtered by the real code and compared with "
  "Re IDFT(R*DFT(pad x)) computed by an O(N^2) DFT, plus linearity, response homogeneity, identity, bit-identical offset "
  "invariance, energy non-increase and no-wrap delay. The claim is exactly: all lattice points.",
  "numpy.fft trusted as reference above N=65; continuum of signals/responses covered only on the lattice", "DESIGN.md §4 C05")
C("C04", "model_checking",
  "explicit-state BFS over pools of real signal objects with deepcopy snapshots, reference model compared after every transition",
  "Breadth-first search from all 169 ordered pairs of a 13-entry signal catalogue (all three classes + a subclass, all value types, "
  "length 1/2, shifted and 2^40*dt grids) through a 78-action alphabet (copy, re-grid on 5 grids incl. a list argument, +, 0+, "
  "scalings, in-place scalings, shift, type assignment, in-place poke, set_buffers, filter) to depth 2 (quick) / 3 (thorough); after "
  "every transition every register is compared with a plain-list reference model, every array handed to the library must be unchanged, "
  "and no two distinct registers or argument arrays may share memory. Plus the full constructor lattice len(times) x len(values) in 0..4.",
  "canonical key = reference models of all registers + identity partition (futures depend on nothing else); deepcopy preserves aliasing "
  "between registers; result class of '+' not constrained", "DESIGN.md §4 C04")
C("C06", "exploration",
  "stateless choice-tree exploration (full product of operation sequences x read masks) on real objects with a differential fresh-object oracle and an eager reference model",
  "Every operation sequence up to depth 2 (quick) / 3-4 (thorough) over a 15-operation alphabet of public mutators (shift, scalings, two "
  "filters, three set_buffers forms, resample, times assignment, with_times sub/super grid, + another signal, copy) times every read mask "
  "is executed on 7 kinds of function-backed signals (plain, ZHS, AVZ, ARZ, FFT/Full thermal noise with owned randomness), and every "
  "attribute-assignment sequence x read mask on the four tracers and three path classes. Each execution is compared with the same "
  "history replayed on a fresh object without intermediate reads; plain FunctionSignals are also compared with an eager longhand-DFT model.",
  "in-place element writes and mutation of the ice object are outside the alphabet; exhaustive only up to the stated depth", "DESIGN.md §4 C06")
