#!/venv/bin/python
"""Regenerates /verif/MANIFEST.json from the table below (kept valid at all times)."""
import json, os, sys
ROOT = os.path.dirname(os.path.dirname(os.path.abspath(__file__)))

CHECKS = {}   # pid -> dict(level, text, note, technique, design_ref)
def C(pid, level, technique, text, note, ref):
    CHECKS[pid] = dict(level=level, technique=technique, text=text, note=note, ref=ref)

C("C20", "exploration",
  "exhaustive enumeration of all import/attribute reference sites and import roots, each decided by executing the lookup; plus a bounded exhaustive walk over the public API of live objects",
  "Every one of the ~1150 third-party/stdlib reference sites in the package source (incl. the custom sub-packages that cannot "
  "run here) is resolved by executing the lookup against the installed libraries (keyword arguments of calls to resolved functions "
  "are checked against the installed signature), and every package module is imported in a fresh interpreter from a scratch copy. "
  "Finite space, completely enumerated; only the installed dependency versions. In addition ~50 live objects (signals, media, the four "
  "tracers and their paths, antennas/detectors, generators/particles, an HDF5 file and its events) have every public attribute read and every "
  "public method called with every combination (<= 48) of values from a per-parameter menu; exceptions naming a missing third-party / "
  "stdlib attribute, keyword or positional slot are violations.",
  "trusts Python's import system and getattr on modules/classes; names reached through instances are resolved only on the walked paths; other "
  "versions in the declared range cannot be installed offline", "DESIGN.md §4 C20")

exec(open(os.path.join(ROOT, "tools", "manifest_table.py")).read()) if os.path.exists(os.path.join(ROOT, "tools", "manifest_table.py")) else None

ALL = ["C%02d" % i for i in range(1, 21)]
checks = []
na = []
NA_REASON = {}
if os.path.exists(os.path.join(ROOT, "tools", "not_applicable.json")):
    NA_REASON = json.load(open(os.path.join(ROOT, "tools", "not_applicable.json")))
for pid in ALL:
    have = os.path.exists(os.path.join(ROOT, "vmc", "props", pid.lower() + ".py")) and pid in CHECKS
    if have:
        c = CHECKS[pid]
        checks.append({
            "property_id": pid,
            "quick_cmd": "./check %s --tier quick" % pid,
            "thorough_cmd": "./check %s --tier thorough" % pid,
            "evidence_file": "/verif/evidence/%s.json" % pid,
            "replay_cmd_template": "./check %s --replay {path}" % pid,
            "engine": "vmc",
            "level_claimed": {"category": c["level"], "text": c["text"], "design_ref": c["ref"]},
            "level_note": c["note"],
            "technique": c["technique"],
        })
    else:
        na.append({"property_id": pid, "reason": NA_REASON.get(pid, "not claimed yet: its bounded-exhaustive check is still under construction (see DESIGN.md build order)")})

manifest = {
    "version": 1,
    "setup_cmd": "./tools/setup.sh",
    "hooks": {
        "guard": "PYREX_VERIF",
        "enable": "./check exports PYREX_VERIF=1; no source hook is currently needed (all interception is done from the harness process)",
        "baseline_off_cmd": "/verif/tools/baseline.sh",
        "source_commits": [],
        "add_only": True,
    },
    "engines": [
        {"name": "vmc", "path": "/verif/vmc", "serves_properties": [c["property_id"] for c in checks],
         "kind_free_text": "hand-written bounded exhaustive explorer for Python: explicit-state BFS over real library objects "
                           "(deepcopy / history replay) with reference models, stateless choice-tree exploration with prefix replay "
                           "and deviation bound over owned numpy.random draws, and exhaustive finite input lattices; fork-once 16-worker pool"},
    ],
    "checks": checks,
    "not_applicable": na,
    "notes": "Run ./check <PID> [--tier quick|thorough]; exit 0/1/2 = held / violation / harness error. Known findings: /verif/known_findings.json.",
}
with open(os.path.join(ROOT, "MANIFEST.json"), "w") as f:
    json.dump(manifest, f, indent=1)
    f.write("\n")
try:
    import jsonschema
    jsonschema.validate(manifest, json.load(open("/root/.vp/MANIFEST.schema.json")))
    print("MANIFEST valid: %d checks, %d not claimed" % (len(checks), len(na)))
except ImportError:
    print("written (jsonschema not available in this interpreter)")
