#!/venv/bin/python
"""tools/mkmutant.py <name> <file-relative-to-repo> <old> <new> [<file> <old> <new> ...]
Creates /verif/mutants/<name>.diff by applying exact-string replacements (each must match exactly once)
to a clean /repo, taking `git diff`, and reverting."""
import subprocess, sys
name = sys.argv[1]
trip = sys.argv[2:]
assert len(trip) % 3 == 0 and trip
assert not subprocess.run(["git", "-C", "/repo", "status", "--porcelain", "--", "pyrex"], capture_output=True, text=True).stdout.strip(), "repo dirty"
try:
    for i in range(0, len(trip), 3):
        f, old, new = trip[i:i+3]
        old = old.encode().decode("unicode_escape"); new = new.encode().decode("unicode_escape")
        p = "/repo/" + f
        s = open(p).read()
        assert s.count(old) == 1, "%r matches %d times in %s" % (old, s.count(old), f)
        open(p, "w").write(s.replace(old, new))
    d = subprocess.run(["git", "-C", "/repo", "diff"], capture_output=True, text=True).stdout
    open("/verif/mutants/%s.diff" % name, "w").write(d)
    print("wrote mutants/%s.diff (%d lines)" % (name, d.count("\n")))
finally:
    subprocess.run(["git", "-C", "/repo", "checkout", "--", "."])
