#!/venv/bin/python
"""print a python file without docstrings / blank lines / comment-only lines, keeping line numbers"""
import ast, sys
path = sys.argv[1]
lo = int(sys.argv[2]) if len(sys.argv) > 2 else 1
hi = int(sys.argv[3]) if len(sys.argv) > 3 else 10**9
src = open(path).read()
import warnings; warnings.simplefilter("ignore")
tree = ast.parse(src)
skip = set()
for node in ast.walk(tree):
    if isinstance(node, (ast.FunctionDef, ast.ClassDef, ast.AsyncFunctionDef, ast.Module)):
        b = node.body
        if b and isinstance(b[0], ast.Expr) and isinstance(getattr(b[0], 'value', None), ast.Constant) and isinstance(b[0].value.value, str):
            skip.update(range(b[0].lineno, b[0].end_lineno + 1))
for i, line in enumerate(src.splitlines(), 1):
    if i < lo or i > hi or i in skip: continue
    s = line.strip()
    if not s or s.startswith('#'): continue
    print("%d\t%s" % (i, line))
