#!/bin/bash
# tools/on_seed.sh <patch-or-seed-id> <PID> [more PIDs]  -- applies a seed / mutant patch to a scratch worktree of /repo
# (created on demand at $VERIF_SCRATCH_WT, default /tmp/mw; /repo itself is never touched) and runs the checks against it.
src="$1"; shift
W="${VERIF_SCRATCH_WT:-/tmp/mw}"
[ -d "$W/.git" ] || [ -f "$W/.git" ] || git -C /repo worktree add -q --detach "$W" HEAD || exit 2
if [ -f "$src" ]; then patch="$(readlink -f "$src")"; else patch="/verif/seeded/$src/patch.diff"; fi
[ -f "$patch" ] || { echo "no such patch: $src"; exit 2; }
git -C "$W" checkout -q -- . ; git -C "$W" apply "$patch" || { echo "STALE $src"; exit 2; }
cd /verif
for p in "$@"; do
  o="$(PYREX_SRC="$W" ./check "$p" --tier "${TIER:-quick}" 2>&1)"; rc=$?
  echo "ON $(basename "$(dirname "$patch")")/$(basename "$patch") check=$p exit=$rc lines=$(echo "$o" | grep -c '^VIOLATION') :: $(echo "$o" | grep -m1 -B1 '^VIOLATION' | head -1 | cut -c1-${COLS:-230})"
done
git -C "$W" checkout -q -- .
