#!/venv/bin/python
"""tools/refresh_meta.py -- after tools/sweep.sh: bring every seed's meta.json up to date with mutants/RESULTS.txt.
For a seed that the check of its own property does not detect, the neighbouring checks named in NEIGHBOURS are tried
(tools/on_seed.sh, scratch worktree) so that `detected_by` lists who catches it."""
import json, os, re, subprocess, sys, collections
NEIGHBOURS = {"C01": ["C06", "C02", "C16"], "C02": ["C01", "C06", "C18"], "C03": ["C18", "C02"], "C04": ["C06", "C05"], "C05": ["C06", "C04"],
              "C06": ["C18", "C02", "C04"], "C08": ["C04", "C06"], "C09": ["C19"], "C10": ["C03"], "C11": ["C12"], "C12": ["C11"],
              "C17": ["C04", "C09"], "C18": ["C06", "C02", "C16"], "C19": ["C09"]}
res = collections.defaultdict(dict)
for line in open("/verif/mutants/RESULTS.txt"):
    m = re.match(r"MUTANT (\S+) check=(C\d\d) exit=(\d+)", line)
    if m and os.path.isdir("/verif/seeded/" + m.group(1)):
        res[m.group(1)][m.group(2)] = int(m.group(3))
summary = collections.Counter()
for seed in sorted(os.listdir("/verif/seeded")):
    own = seed[:3].upper()
    runs = res.get(seed, {})
    if runs.get(own) != 1 and not any(v == 1 for v in runs.values()):
        for nb in NEIGHBOURS.get(own, []):
            if nb in runs:
                continue
            out = subprocess.run(["/verif/tools/on_seed.sh", seed, nb], capture_output=True, text=True).stdout
            m = re.search(r"exit=(\d+)", out)
            runs[nb] = int(m.group(1)) if m else 2
            if runs[nb] == 1:
                break
    mp = "/verif/seeded/%s/meta.json" % seed
    meta = json.load(open(mp)) if os.path.exists(mp) else {}
    meta["detected_by"] = sorted(k for k, v in runs.items() if v == 1)
    meta["final_runs"] = {k: v for k, v in sorted(runs.items())}
    json.dump(meta, open(mp, "w"), indent=1)
    summary["own" if runs.get(own) == 1 else ("neighbour" if meta["detected_by"] else "none")] += 1
    if runs.get(own) != 1:
        print(seed, "->", meta["detected_by"] or "NOT DETECTED", runs)
print(dict(summary))
