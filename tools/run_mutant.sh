#!/bin/bash
# tools/run_mutant.sh <patch.diff> <PID> [PID...]  [--tests]
# Applies a property-breaking change to /repo, runs the given checks (quick tier) and optionally the
# repository test-suite, prints detected/missed, and ALWAYS reverts /repo afterwards.
patch="$(readlink -f "$1")"; shift
tests=0; pids=()
for a in "$@"; do if [ "$a" = "--tests" ]; then tests=1; else pids+=("$a"); fi; done
cd /repo || exit 2
if [ -n "$(git status --porcelain -- pyrex)" ]; then echo "repo not clean"; exit 2; fi
git apply "$patch" || { echo "patch does not apply"; exit 2; }
trap 'git -C /repo checkout -- . ' EXIT
if [ $tests = 1 ]; then
  /verif/tools/baseline.sh | head -3
fi
for p in "${pids[@]}"; do
  out="$(/verif/check "$p" --tier "${TIER:-quick}" 2>&1)"; rc=$?
  n=$(echo "$out" | grep -c '^VIOLATION')
  echo "MUTANT $(basename "$patch") check=$p exit=$rc violations_lines=$n :: $(echo "$out" | grep -m1 -B1 '^VIOLATION' | head -1 | cut -c1-220)"
done
