#!/venv/bin/python
"""prints the sub-agent brief for one property: tools/seed_prompt.py C04 /tmp/seed/s04"""
import json, sys
pid, wt = sys.argv[1], sys.argv[2]
prop = next(json.loads(l) for l in open('/verif/properties.jsonl') if json.loads(l)['id'] == pid)
print(f"""You are helping to evaluate a verification tool by writing ONE realistic, subtle bug ("seeded change") for the open-source Python package PyREx (radio neutrino detector simulation).

Work ONLY inside the git worktree {wt} (a private checkout of the package; the package source is in {wt}/pyrex, the tests in {wt}/tests). Do not read or write anything under /verif or /repo or other directories of /tmp/seed. There is no network.

The semantic property your change must BREAK:

  Title: {prop['title']}
  Statement: {prop['statement']}
  Quantified over: {prop['quantifier']['text']}
  Code that is meant to make it hold: {json.dumps(prop['anchors'].get('mechanism'))}

Requirements for the change:
1. It is a small, realistic edit of the library source under {wt}/pyrex (the kind of mistake a maintainer could make in a refactoring or an "optimisation"): e.g. shared mutable state, a cache that is not invalidated, an index/offset/cursor slip, a wrong branch for an edge case, two sites that each look fine alone. Not a syntax error, not a gross change that breaks ordinary use immediately.
2. The package must still import and the COMPLETE existing test suite must still pass with your change:
      cd {wt} && /venv/bin/python -m pytest -q -p no:cacheprovider -x tests 2>&1 | tail -3
   (about 30 s; all 1353 tests pass on the unmodified tree). Run it and make sure.
3. The bug must need something SPECIFIC to manifest — a particular multi-step sequence of operations, an unusual but legal input, a particular configuration or combination of options — not something ordinary single-call use would expose at once.
4. Write a demonstration {wt}/_seed/demo.py: a small stand-alone program (run as `cd {wt} && PYTHONPATH={wt} /venv/bin/python _seed/demo.py`) that exits 0 on the ORIGINAL code and exits non-zero (assertion failure) with your change, showing that the property above is violated through the public API. Verify both: run it with your change applied; then `git diff -- pyrex > /tmp/seed/<your dir>.p && git apply -R <that file>`, run it again, and re-apply with `git apply <that file>`. Do NOT use `git stash` (the stash is shared between worktrees and other people are working in sibling worktrees).
5. Save the change as a unified diff: `cd {wt} && git diff -- pyrex > _seed/patch.diff` (the _seed directory itself is not part of the diff). Leave the change applied in the worktree.
6. Write {wt}/_seed/meta.json with keys: "property" ("{pid}"), "summary" (one sentence: what was changed), "needs" (what specific sequence/input/configuration is needed for it to manifest), "files" (list of edited files).

Notes: python is /venv/bin/python (numpy 2.x, scipy, h5py present). `import pyrex` works when PYTHONPATH={wt}. Importing pyrex.custom.ara / arianna / irex does not work here (their data files are empty) — do not touch those. Keep the diff small (ideally < 15 changed lines). When done, reply with the summary, the 'needs' text, and confirm the three runs (tests pass; demo fails with change; demo passes without).""")
