#!/bin/bash
# Offline setup: nothing to build (pure Python run with /venv/bin/python); run the engine self-tests.
cd "$(dirname "$0")/.." || exit 1
export PYTHONPATH="$PWD" PYTHONDONTWRITEBYTECODE=1
/venv/bin/python -B -m vmc.selftest.run
