#!/bin/bash
# tools/sweep.sh [quick|thorough]  -- runs every registered check on the unchanged tree (/repo), then every hand mutant and every
# seed against the property named in its file name; writes mutants/RESULTS.txt.
# Mutants and seeds are applied to a scratch worktree of /repo (outside /repo and /verif, removed at the end) and the checks
# are pointed at it with PYREX_SRC, so /repo itself is never modified.  A seed whose meta.json lists another detecting check
# (detected_by) is run against that check as well.
tier="${1:-quick}"
cd /verif || exit 2
if [ -n "$(git -C /repo status --porcelain -- pyrex)" ]; then echo "repo not clean"; exit 2; fi
W=$(mktemp -d /tmp/sweepwt.XXXXXX); rmdir "$W"
git -C /repo worktree add -q --detach "$W" HEAD || exit 2
trap 'git -C /repo worktree remove --force "$W" 2>/dev/null; git -C /repo worktree prune' EXIT
out=mutants/RESULTS.txt; : > $out
echo "== unchanged tree ($tier) ==" | tee -a $out
for p in $(seq -f "C%02g" 1 20); do
  s=$(date +%s); o="$(./check $p --tier $tier 2>&1)"; rc=$?; e=$(( $(date +%s) - s ))
  echo "$p exit=$rc ${e}s known=$(echo "$o" | grep -c '^KNOWN-FINDING') :: $(echo "$o" | tail -1 | cut -c1-160)" | tee -a $out
done
run_one() {   # <patch> <label> <PID>
  git -C "$W" checkout -q -- . ; 
  if ! git -C "$W" apply "$1" 2>/dev/null; then echo "STALE $2" | tee -a $out; return; fi
  o="$(PYREX_SRC="$W" timeout 1800 ./check "$3" --tier quick 2>&1)"; rc=$?
  first="$(echo "$o" | grep -m1 -B1 '^VIOLATION' | head -1 | cut -c1-180)"
  echo "MUTANT $2 check=$3 exit=$rc violations_lines=$(echo "$o" | grep -c '^VIOLATION') :: $first" | tee -a $out
  git -C "$W" checkout -q -- .
}
echo "== hand mutants (quick) ==" | tee -a $out
for m in mutants/*.diff; do
  p=$(basename $m | cut -c1-3 | tr 'c' 'C')
  run_one "$PWD/$m" "$(basename $m)" $p
done
echo "== seeds (quick) ==" | tee -a $out
for d in seeded/*/; do
  p=$(basename $d | cut -c1-3 | tr 'c' 'C')
  pids=$(/venv/bin/python -c "import json,sys; m=json.load(open('$d/meta.json')); print(' '.join(dict.fromkeys(['$p']+[x for x in m.get('detected_by',[])])))" 2>/dev/null || echo $p)
  for q in $pids; do run_one "$PWD/$d/patch.diff" "$(basename $d)" $q; done
done
echo "== summary ==" | tee -a $out
echo "runs=$(grep -c '^MUTANT' $out) detected=$(grep -c '^MUTANT.*exit=1' $out) missed=$(grep '^MUTANT' $out | grep -vc 'exit=1') stale=$(grep -c '^STALE' $out)" | tee -a $out
