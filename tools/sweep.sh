#!/bin/bash
# tools/sweep.sh [quick|thorough]  -- runs every registered check on the unchanged tree, then every hand mutant and every seed
# against the property named in its file name; writes mutants/RESULTS.txt.  Foreground only; /repo must be clean.
tier="${1:-quick}"
cd /verif || exit 2
if [ -n "$(git -C /repo status --porcelain -- pyrex)" ]; then echo "repo not clean"; exit 2; fi
out=mutants/RESULTS.txt; : > $out
echo "== unchanged tree ($tier) ==" | tee -a $out
for p in $(seq -f "C%02g" 1 20); do
  s=$(date +%s); o="$(./check $p --tier $tier 2>&1)"; rc=$?; e=$(( $(date +%s) - s ))
  echo "$p exit=$rc ${e}s known=$(echo "$o" | grep -c '^KNOWN-FINDING') :: $(echo "$o" | tail -1 | cut -c1-160)" | tee -a $out
done
echo "== hand mutants (quick) ==" | tee -a $out
for m in mutants/*.diff; do
  p=$(basename $m | cut -c1-3 | tr 'c' 'C')
  if ! git -C /repo apply --check "$PWD/$m" 2>/dev/null; then echo "STALE $m" | tee -a $out; continue; fi
  timeout 1500 tools/run_mutant.sh $m $p 2>&1 | grep '^MUTANT' | cut -c1-260 | tee -a $out
done
echo "== seeds (quick) ==" | tee -a $out
for d in seeded/*/; do
  p=$(basename $d | cut -c1-3 | tr 'c' 'C')
  if ! git -C /repo apply --check "$PWD/$d/patch.diff" 2>/dev/null; then echo "STALE $d" | tee -a $out; continue; fi
  timeout 1500 tools/run_mutant.sh $d/patch.diff $p 2>&1 | grep '^MUTANT' | sed "s|patch.diff|$(basename $d)|" | cut -c1-260 | tee -a $out
done
git -C /repo status --porcelain -- pyrex | head -3
