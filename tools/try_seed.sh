#!/bin/bash
# tools/try_seed.sh <worktree> <seed-id> <PID> [more PIDs]
# Confirms a seeded change (tests pass, demo fails with / passes without), runs the given checks against it on /repo,
# stores it under /verif/seeded/<seed-id>/ and reports detected/missed.  Always reverts /repo.
wt="$1"; sid="$2"; shift 2
set -u
cd "$wt" || exit 2
[ -f _seed/patch.diff ] || { echo "no patch"; exit 2; }
git diff --quiet -- pyrex && { echo "worktree has no change applied"; git apply _seed/patch.diff || exit 2; }
tests=$(/venv/bin/python -m pytest -q -p no:cacheprovider tests 2>&1 | tail -1)
PYTHONPATH="$wt" /venv/bin/python _seed/demo.py >/dev/null 2>&1; with=$?
dest=/verif/seeded/$sid; mkdir -p "$dest"
# (no git stash: the stash is shared by all worktrees of a repository)
git diff -- pyrex > "$dest/patch.diff"
git apply -R "$dest/patch.diff" || { echo "cannot revert"; exit 2; }
PYTHONPATH="$wt" /venv/bin/python _seed/demo.py >/dev/null 2>&1; without=$?
git apply "$dest/patch.diff"
echo "SEED $sid tests: $tests | demo exit with change: $with | without: $without"
cp _seed/demo.py "$dest/demo.py"; cp _seed/meta.json "$dest/meta.agent.json" 2>/dev/null
cd /repo || exit 2
if [ -n "$(git status --porcelain -- pyrex)" ]; then echo "repo not clean"; exit 2; fi
git apply "$dest/patch.diff" || { echo "patch does not apply to /repo"; exit 2; }
trap 'git -C /repo checkout -- .' EXIT
results=""
for p in "$@"; do
  out="$(/verif/check "$p" --tier "${TIER:-quick}" 2>&1)"; rc=$?
  first="$(echo "$out" | grep -m1 -B1 '^VIOLATION' | head -1 | cut -c1-300)"
  echo "  check=$p exit=$rc :: $first"
  results="$results{\"check\":\"$p\",\"tier\":\"${TIER:-quick}\",\"exit\":$rc,\"first_violation\":$(/venv/bin/python -c 'import json,sys;print(json.dumps(sys.argv[1]))' "$first")},"
done
/venv/bin/python - "$dest" "$tests" "$with" "$without" "[${results%,}]" <<'PY'
import json, sys, os
dest, tests, w, wo, res = sys.argv[1:6]
meta = {}
p = os.path.join(dest, "meta.agent.json")
if os.path.exists(p):
    try: meta = json.load(open(p))
    except Exception: meta = {"raw": open(p).read()}
    os.remove(p)
meta["confirmed"] = {"test_suite_with_change": tests, "demo_exit_with_change": int(w), "demo_exit_without_change": int(wo),
                     "how": "tools/try_seed.sh: full pytest suite in the scratch worktree with the change; demo.py with the change and with it stashed; then patch applied to /repo, checks run, /repo reverted"}
meta["checks_run"] = json.loads(res)
meta["detected_by"] = [r["check"] for r in meta["checks_run"] if r["exit"] == 1]
json.dump(meta, open(os.path.join(dest, "meta.json"), "w"), indent=1)
print("  detected_by:", meta["detected_by"])
PY
