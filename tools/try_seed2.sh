#!/bin/bash
# tools/try_seed2.sh <worktree> <subdir> <seed-id> <PID> [more PIDs]
# Like try_seed.sh, for a worktree that holds several seeds as _seed/<subdir>/{patch.diff,demo.py,meta.json}: resets the
# worktree, applies that one patch, confirms it (suite passes; demo fails with / passes without the change) and runs the
# given checks against the worktree itself (PYREX_SRC), so /repo is never touched.  Stores it under /verif/seeded/<seed-id>/.
wt="$1"; sub="$2"; sid="$3"; shift 3
set -u
cd "$wt" || exit 2
S="_seed/$sub"
[ -f "$S/patch.diff" ] || { echo "no patch in $S"; exit 2; }
git checkout -q -- pyrex
git apply "$S/patch.diff" || { echo "patch does not apply"; exit 2; }
tests=$(/venv/bin/python -m pytest -q -p no:cacheprovider tests 2>&1 | tail -1)
PYTHONPATH="$wt" /venv/bin/python "$S/demo.py" >/dev/null 2>&1; with=$?
dest=/verif/seeded/$sid; mkdir -p "$dest"
git diff -- pyrex > "$dest/patch.diff"
git apply -R "$dest/patch.diff" || { echo "cannot revert"; exit 2; }
PYTHONPATH="$wt" /venv/bin/python "$S/demo.py" >/dev/null 2>&1; without=$?
git apply "$dest/patch.diff"
echo "SEED $sid tests: $tests | demo exit with change: $with | without: $without"
cp "$S/demo.py" "$dest/demo.py"; cp "$S/meta.json" "$dest/meta.agent.json" 2>/dev/null
git -C /repo apply --check "$dest/patch.diff" || echo "  WARNING: patch does not apply to /repo"
cd /verif || exit 2
results=""
for p in "$@"; do
  out="$(PYREX_SRC="$wt" /verif/check "$p" --tier "${TIER:-quick}" 2>&1)"; rc=$?
  first="$(echo "$out" | grep -m1 -B1 '^VIOLATION' | head -1 | cut -c1-300)"
  echo "  check=$p exit=$rc :: $first"
  results="$results{\"check\":\"$p\",\"tier\":\"${TIER:-quick}\",\"exit\":$rc,\"first_violation\":$(/venv/bin/python -c 'import json,sys;print(json.dumps(sys.argv[1]))' "$first")},"
done
git -C "$wt" checkout -q -- pyrex
/venv/bin/python - "$dest" "$tests" "$with" "$without" "[${results%,}]" <<'PY'
import json, sys, os
dest, tests, w, wo, res = sys.argv[1:6]
meta = {}
p = os.path.join(dest, "meta.agent.json")
if os.path.exists(p):
    try: meta = json.load(open(p))
    except Exception: meta = {"raw": open(p).read()}
    os.remove(p)
meta["confirmed"] = {"test_suite_with_change": tests, "demo_exit_with_change": int(w), "demo_exit_without_change": int(wo),
                     "how": "tools/try_seed2.sh: full pytest suite in the scratch worktree with the change; demo.py with the change and with it reverted; checks run against the scratch worktree (PYREX_SRC)"}
meta["checks_run"] = json.loads(res)
meta["detected_by"] = [r["check"] for r in meta["checks_run"] if r["exit"] == 1]
json.dump(meta, open(os.path.join(dest, "meta.json"), "w"), indent=1)
print("  detected_by:", meta["detected_by"])
PY
