"""Stateless exploration of a choice tree with prefix replay and a deviation bound.

The harness body takes a Chooser and calls ch.choose(k, label) wherever the
environment decides something.  Choice 0 is the default answer.  explore() re-executes
the body from scratch for every path (depth-first, prefix replay).  A path may contain
at most `bound` non-default answers (bound=None: the full product).  While replaying a
prefix, the (k, label) sequence must equal what was recorded when the prefix was
created; otherwise the nondeterminism is not owned and the run is aborted.
"""
from .src import HarnessError


class Chooser:
    __slots__ = ("prefix", "expect", "trace")

    def __init__(self, prefix=(), expect=None):
        self.prefix = list(prefix)
        self.expect = expect      # [(k, label)] recorded for the prefix positions
        self.trace = []           # [(k, label, choice)]

    def choose(self, k, label=""):
        i = len(self.trace)
        if k < 1:
            raise HarnessError("choose() with empty menu at %r" % (label,))
        if i < len(self.prefix):
            c = self.prefix[i]
            if self.expect is not None and self.expect[i] != (k, label):
                raise HarnessError(
                    "nondeterminism not owned: replaying choice %d expected %r, saw %r"
                    % (i, self.expect[i], (k, label)))
            if c >= k:
                raise HarnessError("replayed choice %d out of range at %r" % (c, label))
        else:
            c = 0
        self.trace.append((k, label, c))
        return c

    def pick(self, options, label=""):
        return options[self.choose(len(options), label)]

    @property
    def choices(self):
        return [c for _, _, c in self.trace]

    @property
    def deviations(self):
        return sum(1 for _, _, c in self.trace if c != 0)


def explore(body, bound=None, root_prefix=(), max_paths=None):
    """Yield (chooser, result) for every path of the choice tree rooted at root_prefix.

    Returns (through StopIteration value) nothing; callers count themselves.
    `max_paths` is a hard cap that raises HarnessError when hit -- a capped run is never
    silently reported as exhaustive.
    """
    stack = [(list(root_prefix), None)]
    n = 0
    while stack:
        prefix, expect = stack.pop()
        ch = Chooser(prefix, expect)
        result = body(ch)
        if len(ch.trace) < len(prefix):
            raise HarnessError("nondeterminism not owned: path ended inside its prefix")
        n += 1
        if max_paths is not None and n > max_paths:
            raise HarnessError("choice tree larger than cap %d" % max_paths)
        yield ch, result
        trace = ch.trace
        dev = sum(1 for _, _, c in trace[:len(prefix)] if c != 0)
        if bound is not None and dev >= bound:
            continue
        labels = [(k, lab) for k, lab, _ in trace]
        choices = [c for _, _, c in trace]
        # children in reverse so that the simplest alternative is explored first
        for i in range(len(trace) - 1, len(prefix) - 1, -1):
            k = trace[i][0]
            for alt in range(k - 1, 0, -1):
                stack.append((choices[:i] + [alt], labels[:i + 1]))


def count_paths(body, bound=None):
    return sum(1 for _ in explore(body, bound))
