"""Evidence files, VIOLATION / KNOWN-FINDING lines, replay artefacts."""
import hashlib
import json
import os
import time

VERIF_ROOT = os.path.dirname(os.path.dirname(os.path.dirname(os.path.abspath(__file__))))
KNOWN_FILE = os.path.join(VERIF_ROOT, "known_findings.json")


def jsonable(x):
    import numpy as np
    if isinstance(x, dict):
        return {str(k): jsonable(v) for k, v in x.items()}
    if isinstance(x, (list, tuple, set, frozenset)):
        return [jsonable(v) for v in x]
    if isinstance(x, np.ndarray):
        return jsonable(x.tolist())
    if isinstance(x, (np.floating,)):
        return float(x)
    if isinstance(x, (np.integer,)):
        return int(x)
    if isinstance(x, (np.bool_,)):
        return bool(x)
    if isinstance(x, complex):
        return {"re": x.real, "im": x.imag}
    if isinstance(x, float):
        if x != x or x in (float("inf"), float("-inf")):
            return repr(x)
        return x
    if isinstance(x, (str, int, bool)) or x is None:
        return x
    return repr(x)


def load_known(pid):
    """Open and fixed entries for a property.  Never written at run time."""
    if not os.path.exists(KNOWN_FILE):
        return [], []
    with open(KNOWN_FILE) as f:
        data = json.load(f)
    opens, fixed = [], []
    for e in data.get("findings", []):
        if e.get("property") != pid:
            continue
        if e.get("status") == "open":
            m = e.get("match") or {}
            if not m or "check" not in m:
                raise ValueError("open finding %r must identify the failing check and input" % e.get("id"))
            opens.append(e)
        else:
            fixed.append(e)
    return opens, fixed


def _match_value(want, got):
    if isinstance(want, dict) and ("min" in want or "max" in want):
        try:
            g = float(got)
        except (TypeError, ValueError):
            return False
        return (("min" not in want or g >= want["min"]) and ("max" not in want or g <= want["max"]))
    if isinstance(want, list):
        return got in want or jsonable(got) in want
    return want == got or want == jsonable(got)


def match_known(fail, opens):
    tags = dict(fail.get("tags") or {})
    tags["check"] = fail.get("check")
    for e in opens:
        if all(k in tags and _match_value(v, tags[k]) for k, v in e["match"].items()):
            return e
    return None


def write_replay(pid, fail):
    d = os.path.join(VERIF_ROOT, "replays", pid)
    os.makedirs(d, exist_ok=True)
    body = json.dumps(jsonable(fail), sort_keys=True, indent=1)
    digest = hashlib.sha1(body.encode()).hexdigest()[:12]
    path = os.path.join(d, digest + ".json")
    with open(path, "w") as f:
        f.write(body + "\n")
    test = os.path.join(d, "test_replay_%s.py" % digest)
    with open(test, "w") as f:
        f.write(
            '"""Stand-alone replay of one violation of %s (no explorer involved).\n'
            'Run:  cd /verif && PYTHONPATH=/verif /venv/bin/python -B -m pytest -q -p no:cacheprovider %s\n'
            '%s\n"""\n'
            "import json, os, sys\n"
            "sys.path.insert(0, %r)\n"
            "from vmc import run as _run\n\n"
            "def test_replay():\n"
            "    fails = _run.replay_file(%r)\n"
            "    assert not fails, fails\n"
            % (pid, os.path.relpath(test, VERIF_ROOT), fail.get("what", "")[:300].replace('"""', "'''"),
               VERIF_ROOT, path))
    return path


def write_evidence(pid, tier, seed, level, coverage, wall_s, violations, assumptions, extra=None):
    d = os.path.join(VERIF_ROOT, "evidence")
    os.makedirs(d, exist_ok=True)
    ev = {"property_id": pid, "tier": tier, "seed": int(seed), "level": level,
          "coverage": jsonable(coverage), "assumptions": list(assumptions or []),
          "wall_s": round(float(wall_s), 3), "violations": int(violations)}
    if extra:
        ev.update(jsonable(extra))
    ev["written_at"] = time.strftime("%Y-%m-%dT%H:%M:%SZ", time.gmtime())
    path = os.path.join(d, pid + ".json")
    tmp = path + ".tmp%d" % os.getpid()
    with open(tmp, "w") as f:
        json.dump(ev, f, indent=1, sort_keys=True)
        f.write("\n")
    os.replace(tmp, path)
    return path
