"""Explicit-state breadth-first search over states of *real library objects*.

A state is whatever the property module's `initial()`/`step()` return (usually a tuple
(live objects, reference model)).  Snapshots are taken with `clone` (copy.deepcopy by
default) or -- where live objects cannot be copied -- states are rebuilt by replaying
their history through `rebuild(history)`.

    step(state, action)  -> new state, or None when the action is not enabled; it may
                            mutate `state` freely because it always receives a private
                            clone/rebuild
    check(state, history, action) -> list of failure dicts (empty = all invariants hold);
                            called after *every* transition
    canon(state)         -> hashable key; states with equal keys are merged

The search never stops at the first failure; it does not expand a failing state.
"""
import collections
import copy


class SearchResult:
    def __init__(self):
        self.states = 0
        self.transitions = 0
        self.max_depth = 0
        self.per_action = collections.Counter()
        self.failures = []          # (history, failure dict)
        self.obs_classes = set()
        self.samples = []
        self.depth_hist = collections.Counter()


def bfs(initials, actions, step, check, canon, max_depth, clone=copy.deepcopy,
        rebuild=None, observe=None, enabled=None, max_failures=50, action_name=str):
    """initials: list of (name, state_factory).  actions: list of action descriptors."""
    res = SearchResult()
    seen = set()
    frontier = collections.deque()
    for name, factory in initials:
        st = factory()
        hist = (("init", name),)
        fails = check(st, hist, None)
        for f in fails:
            res.failures.append((hist, f))
        k = canon(st)
        if k in seen:
            continue
        seen.add(k)
        res.states += 1
        res.depth_hist[0] += 1
        if observe is not None:
            res.obs_classes.add(observe(st))
        if not fails:
            frontier.append((hist, st if rebuild is None else None, name, factory))
    while frontier:
        hist, st, name, factory = frontier.popleft()
        depth = len(hist) - 1
        if depth >= max_depth:
            continue
        for a in actions:
            if rebuild is None:
                if enabled is not None and not enabled(st, a):
                    continue
                nxt = step(clone(st), a)
            else:
                base = rebuild(factory, hist[1:])
                if enabled is not None and not enabled(base, a):
                    continue
                nxt = step(base, a)
            if nxt is None:
                continue
            nh = hist + (a,)
            res.transitions += 1
            res.per_action[action_name(a)] += 1
            fails = check(nxt, nh, a)
            if fails:
                for f in fails:
                    if len(res.failures) < max_failures:
                        res.failures.append((nh, f))
                continue
            if observe is not None:
                res.obs_classes.add(observe(nxt))
            k = canon(nxt)
            if k in seen:
                continue
            seen.add(k)
            res.states += 1
            res.max_depth = max(res.max_depth, depth + 1)
            res.depth_hist[depth + 1] += 1
            if len(res.samples) < 3 and depth + 1 >= min(2, max_depth):
                res.samples.append([repr(x) for x in nh])
            frontier.append((nh, nxt if rebuild is None else None, name, factory))
    return res
