"""Fork-once worker pool.  Work items are evaluated in deterministic chunks and results are
merged in item order, so the verdict and the evidence do not depend on scheduling."""
import multiprocessing as mp
import os
import traceback

_FUNC = None


def _limit_memory():
    """Safety net: a worker may not grow beyond VERIF_WORKER_MEM_GB (default 6) of address space; a library call that
    tries to allocate more fails with MemoryError inside the library and is reported as a failure of that case."""
    import resource
    gb = float(os.environ.get("VERIF_WORKER_MEM_GB", "6"))
    try:
        resource.setrlimit(resource.RLIMIT_AS, (int(gb * 2 ** 30), int(gb * 2 ** 30)))
    except (ValueError, OSError):
        pass


def _run_chunk(args):
    idx, items = args
    out = []
    for it in items:
        try:
            out.append(("ok", _FUNC(it)))
        except BaseException as e:  # harness error inside a worker
            out.append(("err", "%s\n%s" % (repr(e), traceback.format_exc())))
    return idx, out


def jobs_default():
    try:
        return int(os.environ.get("VERIF_JOBS", "") or min(16, os.cpu_count() or 1))
    except ValueError:
        return 16


def pmap(func, items, jobs=None, chunk=None):
    """Ordered parallel map.  `func` must be a module-level callable (fork context)."""
    global _FUNC
    from .src import HarnessError
    items = list(items)
    jobs = jobs or jobs_default()
    if jobs <= 1 or len(items) <= 1:
        out = []
        for it in items:
            out.append(func(it))
        return out
    if chunk is None:
        chunk = max(1, min(64, len(items) // (jobs * 8) or 1))
    chunks = [(i, items[i:i + chunk]) for i in range(0, len(items), chunk)]
    _FUNC = func
    ctx = mp.get_context("fork")
    results = [None] * len(items)
    with ctx.Pool(jobs, initializer=_limit_memory) as pool:
        for idx, out in pool.imap_unordered(_run_chunk, chunks):
            for j, (tag, val) in enumerate(out):
                if tag == "err":
                    pool.terminate()
                    raise HarnessError("worker failed on item %d: %s" % (idx + j, val))
                results[idx + j] = val
    _FUNC = None
    return results
