"""OwnedRandom: every numpy.random entry point the library uses is answered by the harness.

All continuous draws are derived by inverse CDF from one primitive u in [0,1) obtained
from `source.next_u(label)`; poisson draws come from `source.next_poisson(lam, label)`.
Entry points the library does not use (seed, default_rng, RandomState, randint, choice
...) raise HarnessError("unowned randomness") so that a new call site cannot silently
escape the explorer.
"""
import contextlib
import math

import numpy as np

from .src import HarnessError

_WEYL = 0.6180339887498949  # golden-ratio Weyl sequence: the "default environment answer"


class WeylSource:
    """Deterministic default stream (no choice points)."""

    def __init__(self, start=0.137):
        self.x = start
        self.n = 0
        self.log = []

    def next_u(self, label=""):
        self.x = (self.x + _WEYL) % 1.0
        self.n += 1
        return self.x

    def next_poisson(self, lam, label=""):
        self.n += 1
        return 0


class ScriptSource(WeylSource):
    """Answers from a script {draw index -> u} / by label, Weyl default elsewhere.

    `script` maps the running draw index (0-based, counting every scalar u and every
    poisson) or a label to a forced value.  Used by choice-tree harnesses: the harness
    decides per draw whether it is a choice point."""

    def __init__(self, script=None, start=0.137, chooser=None, lattice=None, points=None):
        super().__init__(start)
        self.script = script or {}
        self.chooser = chooser
        self.lattice = lattice          # list of u values offered at choice points (index 0 = default slot)
        self.points = points            # None = every draw is a choice point; else set of indices/labels

    def next_u(self, label=""):
        i = self.n
        default = super().next_u(label)
        if i in self.script:
            v = self.script[i]
        elif label in self.script:
            v = self.script[label]
        elif self.chooser is not None and (self.points is None or i in self.points or label in self.points):
            c = self.chooser.choose(len(self.lattice) + 1, "u#%d:%s" % (i, label))
            v = default if c == 0 else self.lattice[c - 1]
        else:
            v = default
        self.log.append((label, v))
        return v

    def next_poisson(self, lam, label=""):
        i = self.n
        self.n += 1
        if i in self.script:
            v = self.script[i]
        elif label in self.script:
            v = self.script[label]
        elif self.chooser is not None and self.poisson_menu:
            c = self.chooser.choose(len(self.poisson_menu), "poisson#%d:%s" % (i, label))
            v = self.poisson_menu[c]
        else:
            v = 0
        self.log.append((label, v))
        return v

    poisson_menu = None


def _shape(size):
    if size is None:
        return None
    if isinstance(size, (int, np.integer)):
        return (int(size),)
    return tuple(int(s) for s in size)


def _norm_ppf(u):
    # Acklam's rational approximation refined by one Halley step -- no scipy needed,
    # deterministic, monotone; accuracy ~1e-15, irrelevant to the checks (only used as
    # "some owned normal variate").
    if u <= 0.0:
        u = 1e-300
    if u >= 1.0:
        u = 1 - 1e-16
    a = [-3.969683028665376e+01, 2.209460984245205e+02, -2.759285104469687e+02,
         1.383577518672690e+02, -3.066479806614716e+01, 2.506628277459239e+00]
    b = [-5.447609879822406e+01, 1.615858368580409e+02, -1.556989798598866e+02,
         6.680131188771972e+01, -1.328068155288572e+01]
    c = [-7.784894002430293e-03, -3.223964580411365e-01, -2.400758277161838e+00,
         -2.549732539343734e+00, 4.374664141464968e+00, 2.938163982698783e+00]
    d = [7.784695709041462e-03, 3.224671290700398e-01, 2.445134137142996e+00,
         3.754408661907416e+00]
    pl = 0.02425
    if u < pl:
        q = math.sqrt(-2 * math.log(u))
        x = (((((c[0]*q+c[1])*q+c[2])*q+c[3])*q+c[4])*q+c[5]) / ((((d[0]*q+d[1])*q+d[2])*q+d[3])*q+1)
    elif u <= 1 - pl:
        q = u - 0.5
        r = q*q
        x = (((((a[0]*r+a[1])*r+a[2])*r+a[3])*r+a[4])*r+a[5])*q / (((((b[0]*r+b[1])*r+b[2])*r+b[3])*r+b[4])*r+1)
    else:
        q = math.sqrt(-2 * math.log(1 - u))
        x = -(((((c[0]*q+c[1])*q+c[2])*q+c[3])*q+c[4])*q+c[5]) / ((((d[0]*q+d[1])*q+d[2])*q+d[3])*q+1)
    e = 0.5 * math.erfc(-x / math.sqrt(2)) - u
    uu = e * math.sqrt(2 * math.pi) * math.exp(x*x/2)
    return x - uu / (1 + x*uu/2)


class OwnedRandom:
    OWNED = ("rand", "random", "random_sample", "uniform", "normal", "rayleigh", "poisson")
    FORBIDDEN = ("seed", "default_rng", "RandomState", "randint", "choice", "randn",
                 "shuffle", "permutation", "standard_normal", "exponential", "get_state",
                 "set_state", "ranf", "sample", "bytes", "integers")

    def __init__(self, source):
        self.source = source
        self._saved = {}

    # -- primitives ---------------------------------------------------------------
    def _u(self, shape, label):
        if shape is None:
            return self.source.next_u(label)
        n = int(np.prod(shape)) if shape else 1
        arr = np.array([self.source.next_u(label) for _ in range(n)], dtype=float)
        return arr.reshape(shape)

    def rand(self, *dims):
        return self._u(tuple(dims) if dims else None, "rand")

    def random_sample(self, size=None):
        return self._u(_shape(size), "random_sample")

    random = random_sample

    def uniform(self, low=0.0, high=1.0, size=None):
        low = np.asarray(low, dtype=float)
        high = np.asarray(high, dtype=float)
        shape = _shape(size)
        if shape is None:
            shape = np.broadcast(low, high).shape or None
        u = self._u(shape, "uniform")
        out = low + (high - low) * u
        return float(out) if shape is None else out

    def normal(self, loc=0.0, scale=1.0, size=None):
        shape = _shape(size)
        u = self._u(shape, "normal")
        if shape is None:
            return loc + scale * _norm_ppf(u)
        return loc + scale * np.vectorize(_norm_ppf, otypes=[float])(u)

    def rayleigh(self, scale=1.0, size=None):
        shape = _shape(size)
        u = self._u(shape, "rayleigh")
        return scale * np.sqrt(-2.0 * np.log1p(-u))

    def poisson(self, lam=1.0, size=None):
        if size is not None:
            raise HarnessError("unowned randomness: poisson with size")
        return self.source.next_poisson(lam, "poisson")

    def _forbidden(self, name):
        def f(*a, **k):
            raise HarnessError("unowned randomness: numpy.random.%s called" % name)
        return f

    # -- install / remove ---------------------------------------------------------
    def install(self):
        for name in self.OWNED:
            self._saved[name] = getattr(np.random, name)
            setattr(np.random, name, getattr(self, name))
        for name in self.FORBIDDEN:
            if hasattr(np.random, name):
                self._saved[name] = getattr(np.random, name)
                setattr(np.random, name, self._forbidden(name))

    def remove(self):
        for name, f in self._saved.items():
            setattr(np.random, name, f)
        self._saved.clear()


@contextlib.contextmanager
def owned(source):
    o = OwnedRandom(source)
    o.install()
    try:
        yield source
    finally:
        o.remove()
