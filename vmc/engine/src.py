"""Locate and import the implementation under test.

Every check imports pyrex from $PYREX_SRC (default /repo) -- the *current working
tree* -- in a fresh interpreter started by /verif/check with -B (no bytecode written
into the repository) and single-threaded BLAS.  Nothing here shims the library: if
`import pyrex` fails, that is reported by whichever check needed it.
"""
import hashlib
import os
import subprocess
import sys

PYREX_SRC = os.environ.get("PYREX_SRC", "/repo")
GUARD = "PYREX_VERIF"


class HarnessError(Exception):
    """Raised for failures of the verification machinery itself (exit code 2)."""


def activate():
    """Put the tree under test first on sys.path."""
    os.environ.setdefault(GUARD, "1")
    if sys.path[0] != PYREX_SRC:
        sys.path.insert(0, PYREX_SRC)
    import logging
    logging.getLogger("pyrex").setLevel(logging.CRITICAL)
    import warnings
    warnings.simplefilter("ignore")


def is_library_frame(filename):
    fn = os.path.realpath(filename)
    return fn.startswith(os.path.realpath(os.path.join(PYREX_SRC, "pyrex")) + os.sep)


def exception_origin(exc):
    """Return 'library' if the innermost frame of exc's traceback lies in the pyrex
    sources or in a third-party library called *from* pyrex sources (deepest pyrex frame
    is deeper than the deepest harness frame), else 'harness'."""
    import traceback
    tb = traceback.extract_tb(exc.__traceback__)
    verif_root = os.path.realpath(os.path.dirname(os.path.dirname(os.path.dirname(__file__))))
    deepest_lib = -1
    deepest_harness = -1
    for i, fr in enumerate(tb):
        if not os.path.isabs(fr.filename):
            continue        # e.g. Cython frames ("h5py/_objects.pyx"): neither library nor harness source
        fn = os.path.realpath(fr.filename)
        if is_library_frame(fn):
            deepest_lib = i
        elif fn.startswith(verif_root + os.sep):
            deepest_harness = i
    return "library" if deepest_lib > deepest_harness else "harness"


def short_tb(exc, limit=6):
    import traceback
    tb = traceback.extract_tb(exc.__traceback__)[-limit:]
    lines = ["%s:%d %s" % (os.path.relpath(f.filename, PYREX_SRC)
                           if is_library_frame(f.filename) else os.path.basename(f.filename),
                           f.lineno, f.name) for f in tb]
    return "%s: %s | %s" % (type(exc).__name__, str(exc)[:200], " <- ".join(reversed(lines)))


def tree_identity():
    """git HEAD and a hash of the dirty diff of the tree under test."""
    try:
        head = subprocess.run(["git", "-C", PYREX_SRC, "rev-parse", "HEAD"],
                              capture_output=True, text=True, timeout=20).stdout.strip()
        diff = subprocess.run(["git", "-C", PYREX_SRC, "diff", "HEAD", "--", "pyrex", "setup.py"],
                              capture_output=True, timeout=20).stdout
        return {"head": head, "dirty_diff_sha1": hashlib.sha1(diff).hexdigest() if diff else None}
    except Exception as e:  # pragma: no cover
        return {"head": None, "error": str(e)}
