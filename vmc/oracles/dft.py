"""O(N^2) DFT / inverse DFT written out longhand (independent of scipy.fft / numpy.fft)."""
import numpy as np

_CACHE = {}


def _matrix(n, sign):
    key = (n, sign)
    if key not in _CACHE:
        k = np.arange(n)
        # exact integer phase index modulo n keeps the argument small (accuracy for large k*j)
        kj = np.outer(k, k) % n
        _CACHE[key] = np.exp(sign * 2j * np.pi * kj / n)
        if len(_CACHE) > 64:
            _CACHE.pop(next(iter(_CACHE)))
    return _CACHE[key]


def dft(x):
    x = np.asarray(x, dtype=complex)
    return _matrix(len(x), -1) @ x


def idft(X):
    X = np.asarray(X, dtype=complex)
    return (_matrix(len(X), +1) @ X) / len(X)


def freqs(n, dt):
    """Frequencies of an n-point DFT with the usual aliasing convention (k >= n/2 negative)."""
    k = np.arange(n)
    k = np.where(k < (n + 1) // 2, k, k - n)
    return k / (n * dt)


def filtered_reference(values, dt, response, force_real, use_fft=False):
    """Re IDFT_2N( R . DFT_2N(values zero-padded to 2N) )[:N]  with R evaluated pointwise.

    `response` is called on one python float at a time.  With force_real the response is
    Hermitian-symmetrised: R(|f|) for f >= 0 and conj(R(|f|)) for f < 0."""
    n = len(values)
    padded = np.concatenate((np.asarray(values, dtype=float), np.zeros(n)))
    f = freqs(2 * n, dt)
    R = np.empty(2 * n, dtype=complex)
    for i, fi in enumerate(f):
        if force_real:
            r = complex(response(abs(float(fi))))
            R[i] = r.conjugate() if fi < 0 else r
        else:
            R[i] = complex(response(float(fi)))
    if use_fft:
        spec = np.fft.fft(padded)
        out = np.fft.ifft(R * spec)
    else:
        out = idft(R * dft(padded))
    return np.real(out[:n]), out[:n]
