"""Exact (to quadrature precision) chord integral of a piecewise-polynomial density."""
import math

import numpy as np

_GL_X, _GL_W = np.polynomial.legendre.leggauss(64)


def density(r, shells, radius):
    """Reference density: half-open shells [lower, upper), zero outside [0, R)."""
    if r < 0 or r >= radius:
        return 0.0
    x = r / radius
    for upper, c in shells:
        if r < upper:
            return c[0] + c[1] * x + c[2] * x * x + c[3] * x ** 3
    return 0.0


def chord(endpoint, direction, shells, radius):
    """Returns (distance to the exit point along +direction or 0, column depth in g/cm^2,
    density jumps crossed [(t, |delta rho|)], density just inside the exit point)."""
    e = np.array([endpoint[0], endpoint[1], endpoint[2] + radius], dtype=float)
    d = np.asarray(direction, dtype=float)
    d = d / math.sqrt(float(d @ d))
    b = float(e @ d)
    ee = float(e @ e)
    disc = b * b - ee + radius * radius
    if disc <= 0:
        return 0.0, 0.0, [], 0.0
    t_exit = -b + math.sqrt(disc)
    if t_exit <= 0:
        return 0.0, 0.0, [], 0.0
    t_in = max(0.0, -b - math.sqrt(disc))
    cuts = {t_in, t_exit}
    for upper, _ in shells[:-1]:
        dsc = b * b - ee + upper * upper
        if dsc > 0:
            for t in (-b - math.sqrt(dsc), -b + math.sqrt(dsc)):
                if t_in < t < t_exit:
                    cuts.add(t)
    cuts = sorted(cuts)
    total = 0.0
    jumps = []
    prev_rho_end = None
    for t0, t1 in zip(cuts[:-1], cuts[1:]):
        if t1 - t0 <= 0:
            continue
        tm = 0.5 * (t0 + t1)
        rm = math.sqrt(max(ee + 2 * tm * b + tm * tm, 0.0))
        # polynomial of the shell containing the midpoint
        c = None
        for upper, cc in shells:
            if rm < upper:
                c = cc
                break
        if c is None:
            continue
        ts = tm + 0.5 * (t1 - t0) * _GL_X
        rs = np.sqrt(np.maximum(ee + 2 * ts * b + ts * ts, 0.0)) / radius
        rho = c[0] + c[1] * rs + c[2] * rs ** 2 + c[3] * rs ** 3
        total += 0.5 * (t1 - t0) * float(_GL_W @ rho)
        r0 = math.sqrt(max(ee + 2 * t0 * b + t0 * t0, 0.0)) / radius
        r1 = math.sqrt(max(ee + 2 * t1 * b + t1 * t1, 0.0)) / radius
        rho0 = c[0] + c[1] * r0 + c[2] * r0 ** 2 + c[3] * r0 ** 3
        rho1 = c[0] + c[1] * r1 + c[2] * r1 ** 2 + c[3] * r1 ** 3
        if prev_rho_end is not None:
            jumps.append((t0, abs(rho0 - prev_rho_end)))
        elif t_in > 0 or ee >= radius * radius:
            jumps.append((t0, abs(rho0)))       # entering the Earth from outside / starting exactly on the surface
        prev_rho_end = rho1
    return t_exit, 100.0 * total, jumps, (prev_rho_end or 0.0)


def slant_tolerance(dist, step, rho_exit, jumps, exact, rho_max):
    """First-order discretisation bound of the trapezoid integrator with sample spacing h (see DESIGN C15)."""
    nst = int(dist / step) + (1 if dist % step else 0)
    if nst <= 1:
        return 110.0 * step * rho_max
    h = dist / (nst - 1)
    return 110.0 * h * (rho_exit / 2 + sum(j for _, j in jumps)) + 100.0 * h * h * 2e-6 * (dist / h) * 0.1 + 1e-6 * exact
