"""Line / volume intersections written independently of the package (interval arithmetic on the ray parameter)."""
import math

import numpy as np

INF = float("inf")


def _slab(v, d, lo, hi):
    """t-interval on which lo <= v + t d <= hi"""
    if d == 0:
        return (-INF, INF) if lo <= v <= hi else None
    t1, t2 = (lo - v) / d, (hi - v) / d
    return (min(t1, t2), max(t1, t2))


def _meet(a, b):
    if a is None or b is None:
        return None
    lo, hi = max(a[0], b[0]), min(a[1], b[1])
    return (lo, hi) if lo <= hi else None


def box_interval(vertex, direction, dx, dy, dz):
    iv = (-INF, INF)
    for c, (lo, hi) in enumerate(((-dx / 2, dx / 2), (-dy / 2, dy / 2), (-dz, 0.0))):
        iv = _meet(iv, _slab(float(vertex[c]), float(direction[c]), lo, hi))
    return iv


def cylinder_interval(vertex, direction, dr, dz):
    vx, vy, vz = (float(c) for c in vertex)
    ux, uy, uz = (float(c) for c in direction)
    iv = _slab(vz, uz, -dz, 0.0)
    a = ux * ux + uy * uy
    if a == 0:
        rad = (-INF, INF) if vx * vx + vy * vy <= dr * dr else None
    else:
        b = vx * ux + vy * uy
        c = vx * vx + vy * vy - dr * dr
        disc = b * b - a * c
        if disc < 0:
            rad = None
        else:
            s = math.sqrt(disc)
            rad = ((-b - s) / a, (-b + s) / a)
    return _meet(iv, rad)


def points(vertex, direction, iv):
    v = np.asarray(vertex, dtype=float)
    d = np.asarray(direction, dtype=float)
    return v + iv[0] * d, v + iv[1] * d
