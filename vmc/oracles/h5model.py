"""Driver + reference event log for HDF5 writer/reader histories (shared by C11 and C12).

A *history* is a list of steps; each step is an event spec (dict) describing one add() call:
    {"np": 1|2 particles, "trig": <trigger spec>, "rays": [rays per antenna], "waves": [waveforms per antenna],
     "fault": None | "ray_len" | "no_rays" | "no_trigger" | "no_global" | "pol_len"}
The reference log is the list of *accepted* adds with exactly the data the options say must be recorded.
"""
import os

import numpy as np

from ..engine import rng, src

DT = 2.0 ** -30
FLAGS = ("write_particles", "write_triggers", "write_antenna_triggers", "write_rays", "write_noise", "write_waveforms")
TABLES = {"write_particles": "particles", "write_triggers": "triggers", "write_antenna_triggers": "antenna_triggers",
          "write_rays": "rays", "write_noise": "noise", "write_waveforms": "waveforms"}

TRIGS = {
    "F": False, "T": True, "gT": {"global": True}, "gF": {"global": False},
    "gT_fooF": {"global": True, "foo": False}, "gF_fooT": {"global": False, "foo": True},
    "gT_list": {"global": True, "foo": "per-wave"}, "gT_bar_foo": {"global": True, "bar": True, "foo": False},
}


def global_of(trig):
    t = TRIGS[trig]
    return t if isinstance(t, bool) else t["global"]


class StubPath:
    """Recording stub of a ray path: the writer only uses `_metadata` (same keys as BasicRayTracePath._metadata)."""

    def __init__(self, ev, ant, ray):
        base = 1000.0 * (ev + 1) + 10.0 * ant + ray
        self.meta = {"n0": 1.5 + base * 1e-6, "dz": 1.0, "emitted_x": base + 0.1, "emitted_y": base + 0.2, "emitted_z": base + 0.3,
                     "received_x": base + 0.4, "received_y": base + 0.5, "received_z": base + 0.6, "launch_angle": base + 0.7,
                     "receiving_angle": base + 0.8, "path_length": base + 0.9, "tof": base * 1e-9}

    @property
    def _metadata(self):
        return dict(self.meta)


def make_detector(n_ant):
    from pyrex.antenna import Antenna

    class ThrAnt(Antenna):
        def trigger(self, signal):
            return bool(np.max(np.abs(signal.values)) > 1.0)

    return [ThrAnt(position=(10.0 * i, -5.0 * i, -100.0 - i), noisy=True, freq_range=(1 / (16 * DT), 3 / (16 * DT)),
                   noise_rms=0.01, unique_noise_waveforms=2) for i in range(n_ant)]


def make_event(idx, n_particles):
    from pyrex.particle import Particle, Event, Interaction
    ps = []
    for k in range(n_particles):
        p = Particle([12, -14, 16][(idx + k) % 3], vertex=(100.0 + idx, -200.0 - k, -300.0 - 10 * idx), direction=(0, k + 1, -1 - idx),
                     energy=1e6 * (idx + 1) + k, interaction_model=Interaction, interaction_type=["cc", "nc"][(idx + k) % 2])
        p.interaction.inelasticity = 0.1 * (k + 1)
        p.interaction.em_frac = 0.25 + 0.01 * idx
        p.interaction.had_frac = 0.5 - 0.01 * k
        # (one particle in four has a survival weight of exactly zero: an opaque Earth chord is an ordinary stored value)
        p.survival_weight = 0.0 if (idx + k) % 4 == 3 else 0.9 - 0.01 * idx
        p.interaction_weight = 0.01 * (idx + 1)
        ps.append(p)
    if n_particles >= 2 and idx % 2 == 1:
        # every other multi-particle event is a tree: the first particle is the root, the others are its secondaries
        ev = Event(ps[0])
        ev.add_children(ps[0], ps[1:])
        return ev
    return Event(ps)


def prepare_antennas(det, idx, waves):
    """clear hits (keeping the noise realisation) and receive waves[i] signals on antenna i"""
    from pyrex.signals import Signal
    for i, ant in enumerate(det):
        ant.clear()
        for j in range(waves[i]):
            t = (np.arange(8) + 16 * j + 3 * idx) * DT
            amp = 2.0 if (idx + i + j) % 2 == 0 else 0.25          # alternately above / below the trigger threshold
            v = np.zeros(8)
            v[3] = amp
            v[4] = -amp / 2
            ant.receive(Signal(t, v, Signal.Type.voltage))


def trigger_arg(trig, det):
    t = TRIGS[trig]
    if isinstance(t, dict):
        t = dict(t)
        for k, v in t.items():
            if v == "per-wave":
                mw = max(len(a.all_waveforms) for a in det)
                t[k] = [bool((j + 1) % 2) for j in range(mw)]
    return t


def recorded(config, table, trig):
    """Is `table` recorded for an add with this trigger under `config`? (documented semantics of HDF5Writer)"""
    if not config.get("write_" + table if table != "antenna_triggers" else "write_antenna_triggers", _default(table)):
        return False
    req = config.get("require_trigger", True)
    if isinstance(req, bool):
        trig_only = req and table not in ("particles", "triggers", "antenna_triggers")
    else:
        keys = [req] if isinstance(req, str) else list(req)
        trig_only = table in keys
    return (not trig_only) or global_of(trig)


def _default(table):
    return {"particles": True, "triggers": True, "antenna_triggers": False, "rays": True, "noise": False, "waveforms": False}[table]


def valid_config(config):
    if config.get("write_antenna_triggers", False) and not config.get("write_triggers", True):
        return False
    return config.get("write_particles", True)


class Driver:
    """Writes a history to a file with the real HDF5Writer and keeps the reference log."""

    def __init__(self, path, config, n_ant, mode="w"):
        from pyrex.io import File
        self.path, self.config, self.n_ant = path, dict(config), n_ant
        self.det = make_detector(n_ant)
        self.source = rng.WeylSource(0.2718)
        self.log = []            # accepted adds: dict(idx=..., spec=..., expect=...)
        self.rejected = 0
        self.added = 0
        self.writer = None
        self._File = File
        self.open(mode)

    def open(self, mode):
        self.writer = self._File(self.path, mode, **self.config)
        self.writer.open()
        self.writer.set_detector(self.det)

    def close(self):
        if self.writer is not None:
            self.writer.close()
            self.writer = None

    def add(self, spec):
        """returns 'accepted' | 'rejected' (ValueError/TypeError from argument validation)"""
        idx = self.added + self.rejected
        spec = dict(spec)
        ev = make_event(idx, spec["np"])
        with rng.owned(self.source):
            prepare_antennas(self.det, idx, spec["waves"])
            for a in self.det:
                _ = a.all_waveforms          # materialise waveforms (and with them the noise realisation) before the add
            trig = trigger_arg(spec["trig"], self.det)
            paths = [[StubPath(idx, i, r) for r in range(spec["rays"][i])] for i in range(self.n_ant)]
            pols = [[np.array([0.5 + idx, i + 0.25, r + 0.125]) for r in range(spec["rays"][i])] for i in range(self.n_ant)]
            fault = spec.get("fault")
            kw = {"triggered": trig, "ray_paths": paths, "polarizations": pols, "events_thrown": 3 + idx}
            if fault == "ray_len":
                kw["ray_paths"] = paths[:-1] if self.n_ant > 1 else paths + [[]]
            elif fault == "pol_len":
                if self.n_ant == 2 and len(pols[0]) != len(pols[1]):
                    # the two antennas' lists swapped: the totals still agree, the per-antenna lengths do not
                    kw["polarizations"] = [pols[1], pols[0]]
                else:
                    kw["polarizations"] = [p + [np.zeros(3)] for p in pols]
            elif fault == "no_rays":
                kw["ray_paths"] = None
            elif fault == "no_trigger":
                kw["triggered"] = None
            elif fault == "no_global":
                kw["triggered"] = {"foo": True}
            elif fault == "np_bool_trigger":
                kw["triggered"] = np.bool_(bool(global_of(spec["trig"])))
            expect = self._expect(idx, spec, ev, trig, paths, pols)
            if "noise" in expect:
                expect["noise_bases"] = self.noise_now()
            try:
                self.writer.add(ev, **kw)
            except (ValueError, TypeError) as e:
                if src.exception_origin(e) != "library":
                    raise
                self.rejected += 1
                return "rejected"
        self.added += 1
        self.log.append({"idx": idx, "spec": spec, "expect": expect, "thrown": 3 + idx})
        return "accepted"

    def _expect(self, idx, spec, ev, trig, paths, pols):
        c = self.config
        tname = spec["trig"]
        e = {}
        if recorded(c, "particles", tname):
            e["particles"] = [p._metadata for p in ev]
        if recorded(c, "triggers", tname):
            e["triggered"] = global_of(tname)
            comps = {}
            nw = max(len(a.all_waveforms) for a in self.det)
            if recorded(c, "antenna_triggers", tname):
                for i, a in enumerate(self.det):
                    comps["antenna_%d" % i] = [bool(a.trigger(w)) for w in a.all_waveforms]
            if isinstance(trig, dict):
                for k, v in trig.items():
                    if k != "global":
                        comps[k] = [bool(v)] * nw if isinstance(v, bool) else [bool(x) for x in v[:nw]]
            e["components"] = comps
            e["n_waves"] = nw
        if recorded(c, "rays", tname):
            e["rays"] = [[dict(p._metadata, polarization_x=float(q[0]), polarization_y=float(q[1]), polarization_z=float(q[2]))
                          for p, q in zip(paths[i], pols[i])] for i in range(self.n_ant)]
        if recorded(c, "noise", tname):
            e["noise"] = "present"
        if recorded(c, "waveforms", tname):
            e["waveforms"] = [[(np.array(w.times), np.array(w.values)) for w in a.all_waveforms] for a in self.det]
        return e

    def noise_now(self):
        out = []
        for a in self.det:
            nm = a._noise_master
            out.append(None if nm is None else (np.array(nm.freqs), np.array(nm.amps), np.array(nm.phases)))
        return out


# ---- canonical observation of one event through the reader API ------------------------------------------------
def observe(ev):
    """What the public reader accessors return for the event the iterator currently points at."""
    out = {}

    def call(name, fn):
        try:
            out[name] = fn()
        except ValueError as e:
            if src.exception_origin(e) != "library":
                raise
            out[name] = ("not-saved", str(e)[:60])
        except Exception as e:
            if src.exception_origin(e) != "library":
                raise
            out[name] = ("exception", src.short_tb(e))
    call("particles", lambda: _norm_particles(ev.get_particle_info()))
    call("rays", lambda: _norm_rays(ev.get_rays_info()))
    call("triggered", lambda: None if ev.triggered is None else bool(ev.triggered))
    call("components", lambda: sorted(ev.get_triggered_components()))
    call("components_by_ray", lambda: [sorted(ev.get_triggered_components(ray=j)) for j in range(3)])
    call("noise", lambda: _norm_arr(ev.noise_bases))
    call("waveforms", lambda: _norm_arr(ev.get_waveforms()))
    return out


def _norm_particles(info):
    if isinstance(info, np.ndarray):
        return [] if info.size == 0 else info.tolist()
    return [{k: (v if isinstance(v, str) else float(v)) for k, v in d.items()} for d in info]


def _norm_rays(info):
    if isinstance(info, np.ndarray):
        return [] if info.size == 0 else info.tolist()
    return [[{k: (v if isinstance(v, str) else float(v)) for k, v in d.items()} for d in row] for row in info]


def _norm_arr(a):
    a = np.asarray(a)
    if a.dtype == object:
        return [_norm_arr(x) for x in a]
    return a.tolist()


def same_obs(a, b):
    return _canon(a) == _canon(b)


def _canon(x):
    if isinstance(x, dict):
        return {k: _canon(v) for k, v in x.items()}
    if isinstance(x, (list, tuple)):
        return [_canon(v) for v in x]
    if isinstance(x, float) and x != x:
        return "nan"
    if isinstance(x, (np.floating, np.integer, np.bool_)):
        return x.item()
    return x


def compare_with_log(obs, entry, n_ant):
    """Compare one observed event with its reference log entry; returns list of (check, message)."""
    exp = entry["expect"]
    probs = []
    # particles
    if "particles" in exp:
        got = obs["particles"]
        if not isinstance(got, list) or len(got) != len(exp["particles"]) or (got and not isinstance(got[0], dict)):
            probs.append(("particles", "event %d: %r particles read, %d written" % (entry["idx"], got if not isinstance(got, list) else len(got), len(exp["particles"]))))
        else:
            for k, (g, w) in enumerate(zip(got, exp["particles"])):
                for key, val in w.items():
                    gv = g.get(key)
                    ok = (gv == val) if isinstance(val, str) else (gv is not None and abs(gv - float(val)) <= 1e-12 * max(1.0, abs(float(val))))
                    if not ok:
                        probs.append(("particles", "event %d particle %d: %s read back as %r, written %r" % (entry["idx"], k, key, gv, val)))
                        break
    else:
        if isinstance(obs["particles"], list) and len(obs["particles"]):
            probs.append(("particles-unrecorded", "event %d: particles read back although not recorded for this event" % entry["idx"]))
    # global trigger and components
    if "triggered" in exp:
        if obs["triggered"] != exp["triggered"]:
            probs.append(("trigger", "event %d: triggered read back as %r, written %r" % (entry["idx"], obs["triggered"], exp["triggered"])))
        want = sorted(k for k, flags in exp["components"].items() if any(flags))
        if not want and isinstance(obs["components"], tuple) and obs["components"][0] == "not-saved":
            pass        # nothing was recorded anywhere in the file for component triggers
        elif exp["components"] and obs["components"] != want:
            probs.append(("trigger-components", "event %d: triggered components %r, written %r (per-waveform flags %r)"
                          % (entry["idx"], obs["components"], want, exp["components"])))
        if exp["components"] and isinstance(obs.get("components_by_ray"), list):
            for j in range(3):
                wj = sorted(k for k, flags in exp["components"].items() if j < len(flags) and flags[j])
                if obs["components_by_ray"][j] != wj:
                    probs.append(("trigger-components", "event %d: components triggered on waveform %d read back as %r, written %r"
                                  % (entry["idx"], j, obs["components_by_ray"][j], wj)))
                    break
    else:
        if obs["triggered"] not in (None,) and not (isinstance(obs["triggered"], tuple)):
            probs.append(("trigger-unrecorded", "event %d: a trigger value %r is read back although none was recorded" % (entry["idx"], obs["triggered"])))
    # rays
    if "rays" in exp:
        got = obs["rays"]
        nmax = max([len(r) for r in exp["rays"]] + [0])
        if nmax and (not isinstance(got, list) or len(got) != nmax):
            probs.append(("rays", "event %d: %r ray rows read, %d written" % (entry["idx"], len(got) if isinstance(got, list) else got, nmax)))
        elif nmax:
            for i in range(n_ant):
                for r, w in enumerate(exp["rays"][i]):
                    g = got[r][i]
                    bad = [k for k, val in w.items() if not (k in g and abs(g[k] - float(val)) <= 1e-12 * max(1.0, abs(float(val))))]
                    if bad:
                        probs.append(("rays", "event %d antenna %d ray %d: %s read back as %r, written %r"
                                      % (entry["idx"], i, r, bad[0], g.get(bad[0]), w[bad[0]])))
                        break
                # rows beyond this antenna's own number of solutions hold nothing that was recorded: fill values only
                for r in range(len(exp["rays"][i]), nmax):
                    g = got[r][i] if i < len(got[r]) else {}
                    junk = [k for k, val in g.items() if not isinstance(val, str) and not (val == 0 or val != val)]
                    if junk:
                        probs.append(("rays-phantom", "event %d antenna %d has %d ray(s) but row %d reads back %s=%r (nothing was recorded there)"
                                      % (entry["idx"], i, len(exp["rays"][i]), r, junk[0], g[junk[0]])))
                        break
    else:
        if isinstance(obs["rays"], list) and len(obs["rays"]):
            probs.append(("rays-unrecorded", "event %d: ray data read back although not recorded for this event" % entry["idx"]))
    # waveforms
    if "waveforms" in exp:
        got = obs["waveforms"]
        nmax = max([len(w) for w in exp["waveforms"]] + [0])
        if nmax and (not isinstance(got, list) or len(got) != nmax):
            probs.append(("waveforms", "event %d: %r waveform rows read, %d written" % (entry["idx"], len(got) if isinstance(got, list) else got, nmax)))
        elif nmax:
            for i in range(n_ant):
                for j, (t, v) in enumerate(exp["waveforms"][i]):
                    g = got[j][i]
                    try:
                        ok = np.array_equal(np.asarray(g[0], float), t) and np.array_equal(np.asarray(g[1], float), v)
                    except Exception:
                        ok = False
                    if not ok:
                        probs.append(("waveforms", "event %d antenna %d waveform %d differs from what was written" % (entry["idx"], i, j)))
                        break
    else:
        if isinstance(obs["waveforms"], list) and len(obs["waveforms"]):
            probs.append(("waveforms-unrecorded", "event %d: waveforms read back although not recorded for this event" % entry["idx"]))
    # noise
    if "noise" in exp:
        got = obs["noise"]
        want = exp.get("noise_bases")
        if want is not None:
            if not isinstance(got, list) or len(got) != n_ant:
                probs.append(("noise", "event %d: noise bases for %r antennas" % (entry["idx"], len(got) if isinstance(got, list) else got)))
            else:
                for i in range(n_ant):
                    w = want[i]
                    g = got[i]
                    if w is None:
                        if any(len(x) for x in g):
                            probs.append(("noise", "event %d antenna %d: a noise basis is read back, none existed" % (entry["idx"], i)))
                    elif not all(np.array_equal(np.asarray(g[k], float), w[k]) for k in range(3)):
                        probs.append(("noise", "event %d antenna %d: noise basis differs from the antenna's" % (entry["idx"], i)))
    else:
        if isinstance(obs["noise"], list) and len(obs["noise"]) and any(len(x) for row in obs["noise"] for x in (row if isinstance(row, list) else [row])):
            probs.append(("noise-unrecorded", "event %d: noise bases read back although not recorded for this event" % entry["idx"]))
    return probs


def check_index_table(path):
    """Every (start, length) in /event_indices addresses rows inside its dataset."""
    import h5py
    probs = []
    with h5py.File(path, "r") as f:
        if "event_indices" not in f:
            return probs
        idx = f["event_indices"]
        keys = [k if isinstance(k, str) else k.decode() for k in idx.attrs["keys"]]
        for t, name in enumerate(keys):
            if name not in f:
                probs.append(("index-table", "index column %r has no dataset" % name))
                continue
            obj = f[name]
            rows = max(obj["float"].shape[0], obj["str"].shape[0]) if isinstance(obj, h5py.Group) else obj.shape[0]
            for e in range(idx.shape[0]):
                s, l = int(idx[e, t, 0]), int(idx[e, t, 1])
                if s < 0 or l < 0 or s + l > rows:
                    probs.append(("index-table", "event %d table %s: rows [%d,%d) outside the dataset (%d rows)" % (e, name, s, s + l, rows)))
    return probs
