"""Constants transcribed from the cited publications (NOT copied from the package source).

PREM: Dziewonski & Anderson, "Preliminary reference Earth model", PEPI 25 (1981), Table 1
(density in g/cm^3 as a polynomial in x = r / 6371 km).
"""
PREM_RADIUS = 6371.0e3
# (outer radius in m, polynomial coefficients c0 + c1 x + c2 x^2 + c3 x^3)
PREM_SHELLS = [
    (1221.5e3, (13.0885, 0.0, -8.8381, 0.0)),          # inner core
    (3480.0e3, (12.5815, -1.2638, -3.6426, -5.5281)),  # outer core
    (5701.0e3, (7.9565, -6.4761, 5.5283, -3.0807)),    # lower mantle
    (5771.0e3, (5.3197, -1.4836, 0.0, 0.0)),           # transition zone
    (5971.0e3, (11.2494, -8.0298, 0.0, 0.0)),
    (6151.0e3, (7.1089, -3.8045, 0.0, 0.0)),
    (6346.6e3, (2.6910, 0.6924, 0.0, 0.0)),            # LVZ + LID
    (6356.0e3, (2.900, 0.0, 0.0, 0.0)),                # lower crust
    (6368.0e3, (2.600, 0.0, 0.0, 0.0)),                # upper crust
    (6371.0e3, (1.020, 0.0, 0.0, 0.0)),                # ocean
]

# AraSim-style three-shell model (core / mantle / crust), as documented for CoreMantleCrustModel:
# radius 6378.14 km, core r^2 < 1.2e13 m^2 at 14 g/cm^3, mantle to 40 km below the surface at 3.4, crust 2.9
CMC_RADIUS = 6.378140e6
CMC_SHELLS = [
    (1.2e13 ** 0.5, (14.0, 0.0, 0.0, 0.0)),
    (6.378140e6 - 4.0e4, (3.4, 0.0, 0.0, 0.0)),
    (6.378140e6, (2.9, 0.0, 0.0, 0.0)),
]

# ---- neutrino interactions -----------------------------------------------------------------------
# Connolly, Thorne, Waters, "Calculation of high energy neutrino-nucleon cross sections and uncertainties
# using the MSTW parton distribution functions and implications for future experiments",
# PRD 83, 113009 (2011).  Eq. 7 / Table III: log10(sigma/cm^2) = C1 + C2 ln(eps - C0) + C3 ln^2(eps - C0) + C4 / ln(eps - C0),
# eps = log10(E/GeV).
CTW_SIGMA = {
    ("nu", "cc"): (-1.826, -17.31, -6.406, 1.431, -17.91),
    ("nu", "nc"): (-1.826, -17.31, -6.448, 1.431, -18.61),
    ("nubar", "cc"): (-1.033, -15.95, -7.247, 1.569, -17.72),
    ("nubar", "nc"): (-1.033, -15.95, -7.296, 1.569, -18.30),
}
# Eq. 10: sigma_NC / sigma_tot = D1 + D2 ln(eps - D0)
CTW_NC_FRACTION = (1.76, 0.252162, 0.0256)
# Eq. 11: fraction of the cross section in the low-y region 0 < y < 1e-3
CTW_LOW_Y_FRACTION = (0.128, -0.197, 21.8)        # f0 = F0 sin(F1 (eps - F2))
# Eqs. 12-13, Table V: d sigma / dy ~ (y - C1)^(-1/C2) in the low-y region and ~ 1/(y - C1) in the high-y region,
# C1 = A0 - A1 exp(-(eps - A2)/A3),  C2 = B0 + B1 eps
CTW_Y_A = {
    "low": (0.0, 0.0941, 4.72, 0.456),
    ("nu", "cc"): (-0.008, 0.26, 3.0, 1.7),
    ("nubar", "cc"): (-0.0026, 0.085, 4.1, 1.7),
    "nc": (-0.005, 0.23, 3.0, 1.7),
}
CTW_Y_B = (2.55, -0.0949)
CTW_Y_REGIONS = {"low": (0.0, 1e-3), "high": (1e-3, 1.0)}

# Gandhi, Quigg, Reno, Sarcevic, PRD 58, 093009 (1998), Table / Eqs. 8-11 power-law fits (E in GeV, cm^2)
GQRS_SIGMA = {
    ("nu", "cc"): (5.53e-36, 0.363), ("nu", "nc"): (2.31e-36, 0.363), ("nu", "tot"): (7.84e-36, 0.363),
    ("nubar", "cc"): (5.52e-36, 0.363), ("nubar", "nc"): (2.29e-36, 0.363), ("nubar", "tot"): (7.80e-36, 0.363),
}
# AraSim / icemc (documented in the class): charged-current fraction and the "pickY" parametrisation
GQRS_CC_FRACTION = 0.6865254
# y = (-ln(R1 + u R2))^2.5 with R1 = 1/e, R2 = 1 - R1   <=>   u = (exp(-y^0.4) - R1) / R2

N_A = 6.02214076e23
