"""Constants transcribed from the cited publications (NOT copied from the package source).

PREM: Dziewonski & Anderson, "Preliminary reference Earth model", PEPI 25 (1981), Table 1
(density in g/cm^3 as a polynomial in x = r / 6371 km).
"""
PREM_RADIUS = 6371.0e3
# (outer radius in m, polynomial coefficients c0 + c1 x + c2 x^2 + c3 x^3)
PREM_SHELLS = [
    (1221.5e3, (13.0885, 0.0, -8.8381, 0.0)),          # inner core
    (3480.0e3, (12.5815, -1.2638, -3.6426, -5.5281)),  # outer core
    (5701.0e3, (7.9565, -6.4761, 5.5283, -3.0807)),    # lower mantle
    (5771.0e3, (5.3197, -1.4836, 0.0, 0.0)),           # transition zone
    (5971.0e3, (11.2494, -8.0298, 0.0, 0.0)),
    (6151.0e3, (7.1089, -3.8045, 0.0, 0.0)),
    (6346.6e3, (2.6910, 0.6924, 0.0, 0.0)),            # LVZ + LID
    (6356.0e3, (2.900, 0.0, 0.0, 0.0)),                # lower crust
    (6368.0e3, (2.600, 0.0, 0.0, 0.0)),                # upper crust
    (6371.0e3, (1.020, 0.0, 0.0, 0.0)),                # ocean
]

# AraSim-style three-shell model (core / mantle / crust), as documented for CoreMantleCrustModel:
# radius 6378.14 km, core r^2 < 1.2e13 m^2 at 14 g/cm^3, mantle to 40 km below the surface at 3.4, crust 2.9
CMC_RADIUS = 6.378140e6
CMC_SHELLS = [
    (1.2e13 ** 0.5, (14.0, 0.0, 0.0, 0.0)),
    (6.378140e6 - 4.0e4, (3.4, 0.0, 0.0, 0.0)),
    (6.378140e6, (2.9, 0.0, 0.0, 0.0)),
]
