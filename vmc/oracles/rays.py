"""Independent ray oracle: vectorised RK4 integration of the eikonal ray equations

    d/ds (n dr/ds) = grad n          with  p = n * (unit tangent):   dr/ds = p / n,   dp/ds = grad n

in a stratified medium n(z) = n0 - k exp(a z) (z <= z_top), with mirror reflection at the ice surface z_top.
Nothing here uses Snell's law in closed form, the package's integrals, or its root finding: a ray is launched from the
source in a given direction and marched; what is measured is where it goes.  A step that crosses the surface is split
at the crossing (second-order accurate reflection point).
"""
import numpy as np

C = 299792458.0


def march(n0, k, a, z_top, z0, sin0, cos0, rho, z1, L_guess, nsteps=4000, factor=1.3, atten=None):
    """March rays (arrays over rays) from (0, z0) with unit direction (sin0, cos0) [horizontal-away, vertical-up].

    Returns a dict of arrays evaluated at the closest approach of each marched polyline to its target (rho, z1):
      miss      distance of closest approach (m)
      s         arc length from the source to the closest approach
      t         time of flight  int n ds / c  to the closest approach
      tr, tz    unit tangent at the closest approach
      turned    the ray's vertical direction changed sign without touching the surface before the closest approach
      reflected the ray hit the surface before the closest approach
      zmax      highest depth reached before the closest approach
      (all of the above also with prefix "p0_" / "p1_": the closest approach *before* / *after* the ray has turned over or
       reflected -- a ray passes the receiver's depth once on its way up and once more on its way down)
      att       (optional) int ds / L_att(z, f) for each frequency, shape (nrays, nf); atten = (function(z_array, f_array)
                -> (nz, nf) attenuation lengths, frequency array)
    """
    z0 = np.asarray(z0, dtype=float)
    nr = z0.shape[0]
    rho = np.asarray(rho, dtype=float)
    z1 = np.asarray(z1, dtype=float)
    ds = factor * np.asarray(L_guess, dtype=float) / nsteps
    nf = 0 if atten is None else len(atten[1])

    def n_of(z):
        return n0 - k * np.exp(a * np.minimum(z, z_top))

    def dn_of(z):
        return -k * a * np.exp(a * np.minimum(z, z_top))

    def rk4(st, h):
        r, z, pr, pz, s, t, att = st

        def d(z_, pz_):
            n_ = n_of(z_)
            return pr / n_, pz_ / n_, dn_of(z_), n_
        k1 = d(z, pz)
        k2 = d(z + 0.5 * h * k1[1], pz + 0.5 * h * k1[2])
        k3 = d(z + 0.5 * h * k2[1], pz + 0.5 * h * k2[2])
        k4 = d(z + h * k3[1], pz + h * k3[2])
        r2 = r + h / 6 * (k1[0] + 2 * k2[0] + 2 * k3[0] + k4[0])
        z2 = z + h / 6 * (k1[1] + 2 * k2[1] + 2 * k3[1] + k4[1])
        pz2 = pz + h / 6 * (k1[2] + 2 * k2[2] + 2 * k3[2] + k4[2])
        nbar = (k1[3] + 2 * k2[3] + 2 * k3[3] + k4[3]) / 6
        # renormalise |p| = n (removes the slow drift of the integrator)
        nn = n_of(z2)
        sc = nn / np.sqrt(pr * pr + pz2 * pz2)
        att2 = att
        if nf:
            zm = np.minimum(0.5 * (z + z2), z_top)
            att2 = att + h[:, None] / atten[0](zm, atten[1])
        return (r2, z2, pr * sc, pz2 * sc, s + h, t + nbar * h / C, att2)

    nn = n_of(z0)
    cur = (np.zeros(nr), z0.copy(), nn * np.asarray(sin0, dtype=float), nn * np.asarray(cos0, dtype=float),
           np.zeros(nr), np.zeros(nr), np.zeros((nr, nf)))
    out = {"miss": np.full(nr, np.inf), "s": np.zeros(nr), "t": np.zeros(nr), "tr": np.zeros(nr), "tz": np.zeros(nr),
           "turned": np.zeros(nr, dtype=bool), "reflected": np.zeros(nr, dtype=bool), "zmax": z0.copy(),
           "att": np.zeros((nr, nf))}
    for name in list(out):
        out["p0_" + name] = out[name].copy()
        out["p1_" + name] = out[name].copy()
    flags = {"turned": np.zeros(nr, dtype=bool), "reflected": np.zeros(nr, dtype=bool), "zmax": z0.copy()}
    sign0 = np.sign(cur[3])

    def closest(a_, b_):
        dr_, dz_ = b_[0] - a_[0], b_[1] - a_[1]
        seg2 = dr_ * dr_ + dz_ * dz_
        u = np.clip(((rho - a_[0]) * dr_ + (z1 - a_[1]) * dz_) / np.where(seg2 > 0, seg2, 1.0), 0.0, 1.0)
        cr, cz = a_[0] + u * dr_, a_[1] + u * dz_
        dist = np.sqrt((rho - cr) ** 2 + (z1 - cz) ** 2)
        s_here = a_[4] + u * (b_[4] - a_[4])
        phase1 = flags["turned"] | flags["reflected"]
        for pre, better in (("", dist < out["miss"]), ("p0_", (dist < out["p0_miss"]) & ~phase1), ("p1_", (dist < out["p1_miss"]) & phase1)):
            if not better.any():
                continue
            out[pre + "miss"] = np.where(better, dist, out[pre + "miss"])
            out[pre + "s"] = np.where(better, s_here, out[pre + "s"])
            out[pre + "t"] = np.where(better, a_[5] + u * (b_[5] - a_[5]), out[pre + "t"])
            pr_ = a_[2] + u * (b_[2] - a_[2])
            pz_ = a_[3] + u * (b_[3] - a_[3])
            pn = np.sqrt(pr_ * pr_ + pz_ * pz_)
            out[pre + "tr"] = np.where(better, pr_ / pn, out[pre + "tr"])
            out[pre + "tz"] = np.where(better, pz_ / pn, out[pre + "tz"])
            for name in ("turned", "reflected", "zmax"):
                out[pre + name] = np.where(better, flags[name], out[pre + name])
            if nf:
                out[pre + "att"] = np.where(better[:, None], a_[6] + u[:, None] * (b_[6] - a_[6]), out[pre + "att"])

    for _ in range(nsteps):
        new = rk4(cur, ds)
        over = new[1] > z_top
        if over.any():
            u = np.clip((z_top - cur[1]) / np.where(over, new[1] - cur[1], 1.0), 0.0, 1.0)
            h1 = np.where(over, u * ds, ds)
            mid = rk4(cur, h1)
            flags["zmax"] = np.maximum(flags["zmax"], np.minimum(mid[1], z_top))
            closest(cur, (mid[0], np.where(over, z_top, mid[1])) + mid[2:])
            mid = (mid[0], np.where(over, z_top, mid[1]), mid[2], np.where(over, -np.abs(mid[3]), mid[3])) + mid[4:]
            flags["reflected"] = flags["reflected"] | over
            new = rk4(mid, np.where(over, ds - h1, 0.0))
            flags["turned"] = flags["turned"] | ((np.sign(new[3]) != sign0) & ~flags["reflected"] & (sign0 != 0))
            flags["zmax"] = np.maximum(flags["zmax"], new[1])
            closest(mid, new)
        else:
            flags["turned"] = flags["turned"] | ((np.sign(new[3]) != sign0) & ~flags["reflected"] & (sign0 != 0))
            flags["zmax"] = np.maximum(flags["zmax"], new[1])
            closest(cur, new)
        cur = new
    return out
