"""Eager, deliberately boring reference model of pyrex Signal / EmptySignal / FunctionSignal.

Plain Python lists and floats only.  A model signal is

    M(kind, times, vtype, values)                      kind in {"Signal", "Empty"}
    M("Function", times, vtype, comps=[Comp...])       Comp = [fname, t0, lead, trail, factor, [filter names]]

Function names and filter names refer to the small fixed catalogues FUNCS / FILTERS below,
which the harness also hands to the library, so that model and implementation evaluate
bit-identical elementary functions.
"""
import cmath
import math

import numpy as np

from . import dft

UNDEF, VOLT, FIELD, POWER = 0, 1, 2, 3


# ---- catalogues shared by harness and model --------------------------------------------------
def _bump(width):
    def f(t):
        t = np.asarray(t, dtype=float)
        return np.where(np.abs(t) < width, 1.0 - np.abs(t) / width, 0.0)
    return f


def make_funcs(dt):
    """Functions of time (vectorised), exactly representable on dyadic grids."""
    return {
        "tri": _bump(4 * dt),                       # triangle of half-width 4 samples around t=0
        "early": lambda t, w=2 * dt: _bump(w)(np.asarray(t, dtype=float) + 6 * dt),   # pulse 6 samples *before* t=0
        "late": lambda t, w=2 * dt: _bump(w)(np.asarray(t, dtype=float) - 9 * dt),    # pulse 9 samples after t=0
        "step": lambda t: np.where(np.asarray(t, dtype=float) >= 0, 0.5, -0.25),
        "scalar_only": None,                        # filled below (raises TypeError on arrays)
    }


def scalar_only_factory(dt):
    def f(t):
        return 0.5 * math.exp(-math.fabs(t) / (8 * dt)) if math.fabs(t) < 3 * dt else 0.0
    return f


def make_filters(dt):
    """name -> (callable given to the library, scalar reference callable)"""
    fc = 0.125 / dt
    return {
        "delay2": (lambda f: np.exp(-2j * np.pi * np.asarray(f) * 2 * dt),
                   lambda f: cmath.exp(-2j * math.pi * f * 2 * dt)),
        "lowpass": (lambda f: 1 / (1 + 1j * np.asarray(f) / fc),
                    lambda f: 1 / (1 + 1j * f / fc)),
        "half": (lambda f: 0.5 * np.ones(np.shape(f)) if np.ndim(f) else 0.5, lambda f: 0.5),
    }


# ---- model ---------------------------------------------------------------------------------------
class M:
    __slots__ = ("kind", "times", "vtype", "vals", "comps", "cls")

    def __init__(self, kind, times, vtype=UNDEF, vals=None, comps=None, cls=None):
        self.kind = kind
        self.times = [float(t) for t in times]
        self.vtype = vtype
        self.vals = None if vals is None else [float(v) for v in vals]
        self.comps = None if comps is None else [list(c[:5]) + [list(c[5])] for c in comps]
        self.cls = cls or kind

    def copy(self):
        return M(self.kind, self.times, self.vtype, self.vals, self.comps, self.cls)

    def key(self):
        return (self.kind, self.cls, tuple(self.times), self.vtype,
                None if self.vals is None else tuple(self.vals),
                None if self.comps is None else tuple((c[0], c[1], c[2], c[3], c[4], tuple(c[5])) for c in self.comps))

    # -- eager evaluation ----------------------------------------------------------------------
    def dt(self):
        return self.times[1] - self.times[0] if len(self.times) > 1 else None

    def values(self, funcs, filters):
        if self.kind != "Function":
            return np.array(self.vals, dtype=float)
        n = len(self.times)
        total = np.zeros(n)
        dt = self.dt()
        for fname, t0, lead, trail, factor, flt in self.comps:
            nb = int(math.ceil(lead / dt - 1e-9)) if lead else 0
            na = int(math.ceil(trail / dt - 1e-9)) if trail else 0
            grid = ([self.times[0] - (nb - k) * dt for k in range(nb)] + self.times +
                    [self.times[-1] + (k + 1) * dt for k in range(na)])
            grid = np.array(grid)
            f = funcs[fname]
            try:
                v = np.asarray(f(grid - t0), dtype=float)
                if v.shape != grid.shape:
                    raise TypeError
            except (TypeError, ValueError):
                v = np.array([f(t) for t in (grid - t0)], dtype=float)
            v = v * factor
            if flt:
                def resp(fr, flt=flt):
                    r = 1.0 + 0j
                    for name, force_real in flt:
                        r *= filters[name][1](fr)
                    return r
                # force_real handled per filter: a filter with force_real uses R(|f|) / conj for f<0
                v = _apply(v, dt, [(filters[name][1], fr) for name, fr in flt])
            total += v[nb:nb + n]
        return total


def _apply(vals, dt, flist):
    n = len(vals)
    padded = np.concatenate((vals, np.zeros(n)))
    f = dft.freqs(2 * n, dt)
    R = np.ones(2 * n, dtype=complex)
    for ref, force_real in flist:
        for i, fi in enumerate(f):
            if force_real:
                r = complex(ref(abs(float(fi))))
                R[i] *= r.conjugate() if fi < 0 else r
            else:
                R[i] *= complex(ref(float(fi)))
    out = dft.idft(R * dft.dft(padded)) if 2 * n <= 160 else np.fft.ifft(R * np.fft.fft(padded))
    return np.real(out[:n])


def interp_linear(new_times, times, vals):
    """stored value at shared sample times, linear in between, zero outside the span"""
    out = []
    for t in new_times:
        if len(times) == 0 or t < times[0] or t > times[-1]:
            out.append(0.0)
            continue
        # find bracketing samples
        lo = 0
        hi = len(times) - 1
        hit = None
        for i, ti in enumerate(times):
            if ti == t:
                hit = i
                break
            if ti < t:
                lo = i
            if ti > t:
                hi = i
                break
        if hit is not None:
            out.append(vals[hit])
        else:
            w = (t - times[lo]) / (times[hi] - times[lo])
            out.append(vals[lo] + w * (vals[hi] - vals[lo]))
    return out
