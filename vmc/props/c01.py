"""C01 -- every ray-trace solution is a true ray joining its two endpoints.

Exhaustive finite lattice of geometries (ice model x source depth x receiver depth x horizontal separation incl. the
tracer's own shadow boundary) x tracer (Specialized; Basic with three integration steps).  Oracle: launch a ray from the
source in the *reported* emitted direction and integrate the eikonal equations with RK4 (oracles/rays.py).
"""
import math

import numpy as np

from ..engine import src
from ..oracles import rays

PID = "C01"
LEVEL = "exploration"
RULE = ("ice in {Antarctic, Greenland, two custom exponential profiles} x source depth x receiver depth (11 depths either side of "
        "z_uniform, all ordered pairs) x horizontal separation {0, 0.01, 0.5, 5, 50, 200, 600, 1500, 3000} + {0.9, 0.99, 0.999} x the tracer's "
        "own direct and indirect reach (quick: Antarctic on the full lattice, the other profiles on every third source depth); Specialized tracer on all points, Basic tracer (dz in {0.25, 1, 4}) on the sub-lattice of legs "
        "spanning >= 20 dz; distinct_nontrivial = distinct (ice, tracer, geometry, solution) rays marched by the RK4 oracle")
ASSUMPTIONS = ["RK4 eikonal marcher with 4000 steps (6000 thorough) is the reference; tolerances per conditioning class W/N/D as derived in DESIGN C01",
               "the true exponential profile is integrated also below z_uniform, where the tracer treats the ice as uniform by design "
               "(tolerance 2e-4 instead of 3e-5 for paths crossing z_uniform)",
               "Basic tracer: tolerances = 3 x the calibrated lattice-wide maxima per dz, plus convergence of the maxima with dz; for direct rays "
               "that stay steep (|cos| >= 0.3 at both ends) 5 x the maxima measured on that class (second-order accurate there)"]
CHUNK = 1

DEPTHS = [-1.0, -5.0, -20.0, -60.0, -100.0, -150.0, -200.0, -400.0, -800.0, -1500.0, -2500.0]
RHOS = [0.0, 0.01, 0.5, 5.0, 50.0, 200.0, 600.0, 1500.0, 3000.0]
ICES = {"antarctic": ("AntarcticIce", {}), "greenland": ("GreenlandIce", {}),
        "custom_a": ("AntarcticIce", {"n0": 1.6, "k": 0.3, "a": 0.02}), "custom_b": ("AntarcticIce", {"n0": 1.9, "k": 0.5, "a": 0.008})}
# Basic tracer: 3 x calibrated maxima (miss [m], relative path length / tof, direction [rad]) per dz
# calibrated on the full thorough lattice (Antarctic + Greenland, 3468 rays): observed maxima
#   dz=0.25: 0.76 m / 2.3e-3 / 4.7e-3;  dz=1: 12.7 m / 1.8e-2 / 8.2e-2;  dz=4: 20.1 m / 1.5e-2 / 0.2
# receiver depths whose distance to the (integral) source depths is not a whole number of integration steps
BASIC_EXTRA_DEPTHS = [-95.8, -420.3]
# Basic tracer, direct rays that stay steep (|cos| of the angle to the vertical >= 0.3 at both ends): second-order accurate,
# measured maxima on the thorough lattice (incl. the extra depths): dL, dT <= 2.9e-7 / 9.1e-6 / 9.8e-5 and miss <= 5.5e-4 / 8.7e-3 /
# 0.14 m at dz = 0.25 / 1 / 4 -- tolerances 5 x that (relative length and time, miss in m)
BASIC_STEEP_TOL = {0.25: (5e-6, 3e-3), 1.0: (5e-5, 0.05), 4.0: (5e-4, 0.7)}
BASIC_TOL = {0.25: (2.3, 7e-3, 1.5e-2), 1.0: (38.0, 5.5e-2, 0.25), 4.0: (60.0, 4.5e-2, 0.6)}


def _ice(name):
    from pyrex import ice_model
    cls, kw = ICES[name]
    return getattr(ice_model, cls)(**kw)


def cases(tier, seed):
    out = []
    ices = ["antarctic"] if tier == "quick" else list(ICES)
    for ice in ices:
        for z0 in DEPTHS:
            out.append({"ice": ice, "tracer": "specialized", "z_from": z0, "steps": 4000 if tier == "quick" else 6000})
    if tier == "quick":
        # the other profiles on a reduced source lattice: a tracer must use the index profile it was given
        for ice in ("greenland", "custom_a", "custom_b"):
            for z0 in DEPTHS[1::3]:
                out.append({"ice": ice, "tracer": "specialized", "z_from": z0, "steps": 8000})
        for ice in ("greenland",):
            for z0 in DEPTHS[2::4]:
                out.append({"ice": ice, "tracer": "basic", "dz": 1.0, "z_from": z0, "steps": 4000})
        # the fine integration step (dz < 1) on two source depths; the thorough tier has the whole lattice
        for z0 in (-100.0, -400.0):
            out.append({"ice": "antarctic", "tracer": "basic", "dz": 0.25, "z_from": z0, "steps": 4000})
    basic_ice = ["antarctic"] if tier == "quick" else ["antarctic", "greenland"]
    for ice in basic_ice:
        for dz in ((1.0, 4.0) if tier == "quick" else (0.25, 1.0, 4.0)):
            for z0 in DEPTHS[::2] if tier == "quick" else DEPTHS:
                out.append({"ice": ice, "tracer": "basic", "dz": dz, "z_from": z0, "steps": 4000})
    return out


def _tracer(case, ice, p0, p1):
    from pyrex import ray_tracing as rt
    if case["tracer"] == "specialized":
        return rt.SpecializedRayTracer(p0, p1, ice)
    return rt.BasicRayTracer(p0, p1, ice, dz=case["dz"])


def evaluate(case):
    ice = _ice(case["ice"])
    z_uniform = ice.depth_with_index(ice.n0 * 0.99999)
    z_from = case["z_from"]
    is_basic = case["tracer"] == "basic"
    fails = []
    nontriv = []
    n = 0
    rays_in = []   # (meta, path)
    phi = 0.6435011087932844       # direction of the horizontal offset (3-4-5 triangle, not axis aligned)
    cph, sph = 0.8, 0.6
    only = case.get("only")
    for z_to in (DEPTHS + BASIC_EXTRA_DEPTHS if is_basic else DEPTHS):
        if is_basic and abs(z_to - z_from) < 20 * case["dz"]:
            continue
        rhos = list(RHOS)
        # the tracer's own maximum reach for this depth pair: sit on the shadow boundary
        try:
            probe = _tracer(case, ice, (0.0, 0.0, z_from), (1.0, 0.0, z_to))
            for reach in (() if is_basic else (probe.direct_r_max, probe.indirect_r_max)):
                if reach is not None and np.isfinite(reach) and 0 < reach < 2e4:
                    rhos += [0.9 * float(reach), 0.99 * float(reach), 0.999 * float(reach)]
        except Exception as e:
            if src.exception_origin(e) != "library":
                raise
            fails.append(_f("reach-exception", case, z_to, None, "direct_r_max/indirect_r_max raised " + src.short_tb(e), exc=type(e).__name__))
        for rho in rhos:
            if only and [z_to, rho] != only:
                continue
            if is_basic and rho < 1.0:
                continue
            n += 1
            p0 = (100.0, -50.0, z_from)
            p1 = (100.0 + rho * cph, -50.0 + rho * sph, z_to)
            dn_from = ice.k * math.exp(ice.a * z_from) / ice.n0        # (n0 - n(z)) / n0
            dn_to = ice.k * math.exp(ice.a * z_to) / ice.n0
            tags = {"both_below_z_uniform": bool(z_from < z_uniform and z_to < z_uniform),
                    "equal_depth_weak_gradient": bool(z_from == z_to and dn_from < 5e-4),
                    "index_saturated_pair": bool(dn_from < 1e-12 and dn_to < 1e-12)}
            try:
                tr = _tracer(case, ice, p0, p1)
                sols = tr.solutions
                exists = tr.exists
            except Exception as e:
                if src.exception_origin(e) != "library":
                    raise
                fails.append(_f("solutions-exception", case, z_to, rho, "solutions raised " + src.short_tb(e), exc=type(e).__name__, **tags))
                continue
            if bool(exists) != (len(sols) > 0):
                fails.append(_f("exists", case, z_to, rho, "exists=%r but %d solutions" % (exists, len(sols)), **tags))
            if len(sols) not in (0, 2):
                fails.append(_f("solution-count", case, z_to, rho, "%d solutions (a gradient-index tracer reports none or two)" % len(sols), **tags))
            for si, path in enumerate(sols):
                rays_in.append(({"z_to": z_to, "rho": rho, "si": si, "tags": tags}, path))
            # the end points are the caller's arrays: what the caller does to them after the tracer has been built (here: after
            # the solution list was obtained, before anything was read from the paths) does not move the ray
            if not (is_basic and case["dz"] < 1.0):
                n += 1
                a_, b_ = np.array(p0, dtype=float), np.array(p1, dtype=float)
                try:
                    tr_a = _tracer(case, ice, a_, b_)
                    sols_a = list(tr_a.solutions)
                    a_ += 977.0
                    b_[:] = (-3.0, 5.0, -7.0)
                    same = len(sols_a) == len(sols)
                    for x_, y_ in zip(sols, sols_a):
                        for name in ("tof", "path_length", "emitted_direction", "received_direction", "from_point", "to_point"):
                            if not np.array_equal(np.asarray(getattr(x_, name), float), np.asarray(getattr(y_, name), float), equal_nan=True):
                                same = False
                    if not same:
                        fails.append(_f("caller-arrays", case, z_to, rho, "the solutions of a tracer built from numpy arrays changed when "
                                        "the caller later modified those arrays in place", **tags))
                except Exception as e:
                    if src.exception_origin(e) != "library":
                        raise
                    fails.append(_f("caller-arrays", case, z_to, rho, "array-typed endpoints: " + src.short_tb(e), exc=type(e).__name__, **tags))
            # the same two points written with integer coordinates (as a user types them) are the same two points
            if all(float(c).is_integer() for c in p0 + p1) and not (is_basic and case["dz"] < 1.0):
                n += 1
                try:
                    tr_i = _tracer(case, ice, [int(c) for c in p0], tuple(int(c) for c in p1))
                    sols_i = tr_i.solutions
                    same = len(sols_i) == len(sols) and bool(tr_i.exists) == bool(exists)
                    for a_, b_ in zip(sols, sols_i):
                        for name in ("tof", "path_length", "emitted_direction", "received_direction"):
                            if not np.array_equal(np.asarray(getattr(a_, name), float), np.asarray(getattr(b_, name), float), equal_nan=True):
                                same = False
                    if not same:
                        fails.append(_f("integer-coordinates", case, z_to, rho, "solutions for integer-typed endpoints differ from those for the "
                                        "same endpoints given as floats (%d vs %d solutions)" % (len(sols_i), len(sols)), **tags))
                except Exception as e:
                    if src.exception_origin(e) != "library":
                        raise
                    fails.append(_f("integer-coordinates", case, z_to, rho, "integer-typed endpoints: " + src.short_tb(e), exc=type(e).__name__, **tags))
    if not rays_in:
        return {"n": n, "nontrivial": [], "fails": fails, "sample": {"case": case}}
    # ---- reported quantities --------------------------------------------------------------------
    rep = []
    for meta, path in rays_in:
        try:
            e = np.asarray(path.emitted_direction, dtype=float)
            r = np.asarray(path.received_direction, dtype=float)
            L = float(path.path_length)
            T = float(path.tof)
            rep.append((e, r, L, T, bool(path.direct)))
        except Exception as ex_:
            if src.exception_origin(ex_) != "library":
                raise
            fails.append(_f("path-exception", case, meta["z_to"], meta["rho"], "solution %d: %s" % (meta["si"], src.short_tb(ex_)), **meta["tags"]))
            rep.append(None)
    def _same_point(i):
        return rays_in[i][0]["rho"] == 0 and rays_in[i][0]["z_to"] == z_from
    keep = [i for i, x in enumerate(rep) if x is not None and np.all(np.isfinite(x[0])) and np.all(np.isfinite(x[1])) and np.isfinite(x[2]) and np.isfinite(x[3])
            and (x[2] > 0 or _same_point(i))]
    for i, x in enumerate(rep):
        if x is not None and i not in keep:
            meta = rays_in[i][0]
            fails.append(_f("finite", case, meta["z_to"], meta["rho"], "solution %d reports non-finite quantities: L=%r T=%r emitted=%s" % (meta["si"], x[2], x[3], x[0].tolist()), **meta["tags"]))
    if not keep:
        return {"n": n, "nontrivial": [], "fails": fails, "sample": {"case": case}}
    E = np.array([rep[i][0] for i in keep])
    R = np.array([rep[i][1] for i in keep])
    L = np.array([rep[i][2] for i in keep])
    T = np.array([rep[i][3] for i in keep])
    z1 = np.array([rays_in[i][0]["z_to"] for i in keep])
    rho = np.array([rays_in[i][0]["rho"] for i in keep])
    sin0 = np.hypot(E[:, 0], E[:, 1])
    cos0 = E[:, 2]
    z0 = np.full(len(keep), z_from)
    Lg = np.maximum(L, np.hypot(rho, z1 - z0))
    mm = rays.march(ice.n0, ice.k, ice.a, ice.valid_range[1], z0, sin0, cos0, rho, z1, Lg, nsteps=case.get("steps", 4000))
    # A ray passes the receiver's depth once before and once after turning over / reflecting.  "The first solution never turns
    # over; the second turns over below the surface or reflects off it" is checked as: a solution flagged direct must reach the
    # receiver *before* the marched ray turns or reflects, a solution flagged indirect *after* it has done so.
    is_direct = np.array([rep[i][4] for i in keep])
    m = {k_: np.where(is_direct, mm["p0_" + k_], mm["p1_" + k_]) for k_ in ("miss", "s", "t", "tr", "tz", "turned", "reflected", "zmax")}
    other_miss = np.where(is_direct, mm["p1_miss"], mm["p0_miss"])
    n_from = ice.n0 - ice.k * math.exp(ice.a * z_from)
    stats = {}
    for j, i in enumerate(keep):
        meta, path = rays_in[i]
        e, r, Lr, Tr, direct = rep[i]
        zt, rh, si = meta["z_to"], meta["rho"], meta["si"]
        beta = n_from * sin0[j]
        n_to = ice.n0 - ice.k * math.exp(ice.a * zt)
        crosses = (min(z_from, zt) < z_uniform) or (not direct and False)
        both_deep = z_from < z_uniform and zt < z_uniform
        if Lr < 1e-6:
            continue        # source and receiver coincide: zero-length path, nothing to march
        region = "D" if both_deep else ("N" if beta < 0.1 else ("S" if Lr < 1.0 else "W"))
        tags = dict(meta["tags"], region=region, crosses_z_uniform=bool(min(z_from, zt) < z_uniform), solution=si, direct=direct,
                    beta_below_0p005=bool(beta < 0.005))
        nontriv.append("%s|%s|%s|%g|%g|%g|%d" % (case["ice"], case["tracer"], case.get("dz"), z_from, zt, rh, si))
        # horizontal direction must point from source to receiver
        if rh > 0 and sin0[j] > 1e-12:
            hx, hy = e[0] / sin0[j], e[1] / sin0[j]
            if abs(hx - cph) > 1e-9 or abs(hy - sph) > 1e-9:
                fails.append(_f("azimuth", case, zt, rh, "solution %d: emitted direction points to azimuth (%.6f, %.6f), receiver lies at (0.8, 0.6)" % (si, hx, hy), **tags))
        # Snell invariant from the reported directions
        sr = math.hypot(r[0], r[1])
        if not abs(n_from * sin0[j] - n_to * sr) <= 1e-9 * max(1.0, beta):
            fails.append(_f("snell", case, zt, rh, "solution %d: n sin(theta) = %.12f at launch, %.12f at reception" % (si, n_from * sin0[j], n_to * sr), **tags))
        if si == 1 and direct:
            fails.append(_f("second-direct", case, zt, rh, "the second solution is flagged direct", **tags))
        if region == "D":
            continue
        miss = float(m["miss"][j])
        dL = abs(float(m["s"][j]) - Lr) / Lr
        dT = abs(float(m["t"][j]) - Tr) / Tr
        # tangent at arrival vs reported received direction (in the (r, z) plane)
        ddir = math.hypot(float(m["tr"][j]) - sr, float(m["tz"][j]) - r[2])
        if is_basic:
            tm, tl, td = BASIC_TOL[case["dz"]]
            tol_miss, tol_L, tol_dir = tm, tl, td
            steep = bool(direct and abs(e[2]) >= 0.3 and abs(r[2]) >= 0.3)
            if steep and region == "W":
                tol_L, tol_miss = BASIC_STEEP_TOL[case["dz"]]
                stats["steep_max_dL"] = max(stats.get("steep_max_dL", 0.0), dL)
                stats["steep_max_dT"] = max(stats.get("steep_max_dT", 0.0), dT)
                stats["steep_max_miss"] = max(stats.get("steep_max_miss", 0.0), miss)
                stats["steep_rays"] = stats.get("steep_rays", 0) + 1
        else:
            if tags["crosses_z_uniform"]:
                # below z_uniform the tracer treats the ice as uniform by design; the oracle integrates the true profile
                tol_miss, tol_L, tol_dir = 0.03 + 3e-4 * Lr, 2e-4, 5e-3
            else:
                # 3 cm floor: launch-angle root finding next to the shadow boundary (d rho / d theta diverges there)
                tol_miss, tol_L, tol_dir = 0.03 + 3e-5 * Lr, 3e-5, 2e-4
        if region == "W":
            key = "W"
            stats["max_miss_" + key] = max(stats.get("max_miss_" + key, 0.0), miss)
            stats["max_missrel_" + key] = max(stats.get("max_missrel_" + key, 0.0), miss / tol_miss)
            stats["max_dL_" + key] = max(stats.get("max_dL_" + key, 0.0), dL / tol_L)
            stats["max_dT_" + key] = max(stats.get("max_dT_" + key, 0.0), dT / tol_L)
            stats["max_ddir_" + key] = max(stats.get("max_ddir_" + key, 0.0), ddir / tol_dir)
            stats["rays_W"] = stats.get("rays_W", 0) + 1
            if is_basic:
                stats["max_abs_miss"] = max(stats.get("max_abs_miss", 0.0), miss)
                stats["max_abs_dL"] = max(stats.get("max_abs_dL", 0.0), dL)
                stats["max_abs_ddir"] = max(stats.get("max_abs_ddir", 0.0), ddir)
        if region in ("N", "S"):
            # near-vertical / very short: the conditioning model of DESIGN C01 (x10); beyond the W tolerance -> finding K4
            if is_basic:
                continue
        if region == "N" and not is_basic and not tags["crosses_z_uniform"]:
            stats["nv_max_dL"] = max(stats.get("nv_max_dL", 0.0), dL)
            stats["nv_max_dT"] = max(stats.get("nv_max_dT", 0.0), dT)
            stats["nv_rays"] = stats.get("nv_rays", 0) + 1
            ms_, mt_ = float(m["s"][j]), float(m["t"][j])
            ratio = abs((Tr / Lr) / (mt_ / ms_) - 1.0) if ms_ > 0 and mt_ > 0 else 0.0
            stats["nv_max_ratio"] = max(stats.get("nv_max_ratio", 0.0), ratio)
            # near-vertical rays above z_uniform: length and time each carry the conditioning error of finding K4, but they carry
            # the SAME relative error (measured: their ratio agrees with the marched ray's to 1.3e-4 on all 1916 such rays of the
            # thorough lattice) -- time / length is the path-averaged index of one and the same ray
            if not ratio <= 5e-4:
                fails.append(_f("time-length-ratio", case, zt, rh, "solution %d: c tof / path_length = %.6f, path-averaged index of the "
                                "marched ray %.6f (rel. %.3g > 5e-4)" % (si, Tr / Lr * 299792458.0,
                                                                         mt_ / ms_ * 299792458.0, ratio), **tags))
        if not miss <= tol_miss:
            fails.append(_f("arrival", case, zt, rh, "solution %d (direct=%s): launched in the reported direction the ray passes the receiver at %.4g m %s (tol %.3g; %.4g m in the other phase), L=%.6g"
                            % (si, direct, miss, "before turning/reflecting" if direct else "after turning/reflecting", tol_miss, float(other_miss[j]), Lr), **tags))
            continue
        if not dL <= tol_L:
            fails.append(_f("path-length", case, zt, rh, "solution %d: path_length %.9g, line integral of ds along the marched ray %.9g (rel %.3g > %.1g)"
                            % (si, Lr, float(m["s"][j]), dL, tol_L), **tags))
        if not dT <= tol_L:
            fails.append(_f("tof", case, zt, rh, "solution %d: tof %.9g, integral of n ds/c along the marched ray %.9g (rel %.3g > %.1g)"
                            % (si, Tr, float(m["t"][j]), dT, tol_L), **tags))
        if not ddir <= tol_dir:
            fails.append(_f("received-direction", case, zt, rh, "solution %d: received direction (%.6f, %.6f) vs tangent of the marched ray (%.6f, %.6f)"
                            % (si, sr, r[2], float(m["tr"][j]), float(m["tz"][j])), **tags))
    return {"n": n, "nontrivial": nontriv, "fails": fails, "stats": stats,
            "sample": {"ice": case["ice"], "tracer": case["tracer"], "dz": case.get("dz"), "z_from": z_from, "rays": len(keep)}}


def _f(check, case, z_to, rho, what, **tags):
    tags["group"] = "%s|%s|%s" % (check, case["tracer"], tags.get("region", "-"))
    tags["tracer"] = case["tracer"]
    tags["ice"] = case["ice"]
    if "dz" in case:
        tags["dz"] = case["dz"]
    tags["z_from"] = case["z_from"]
    tags["z_to"] = z_to
    if z_to is not None:
        tags["pair"] = "%s|%g|%g" % (case["ice"], min(case["z_from"], z_to), max(case["z_from"], z_to))
    return {"check": check, "what": "%s %s%s from z=%g to z=%s rho=%s: %s" % (case["ice"], case["tracer"], "(dz=%g)" % case["dz"] if "dz" in case else "",
                                                                           case["z_from"], z_to, rho, what),
            "tags": tags, "replay": dict(case, only=[z_to, rho]) if rho is not None else dict(case)}


def post(cases_, results, tier):
    """Basic tracer: lattice-wide maxima must not grow when dz shrinks (convergence claim)."""
    agg = {}
    for c, r in zip(cases_, results):
        if c["tracer"] != "basic":
            continue
        st = r.get("stats") or {}
        a = agg.setdefault((c["ice"], c["dz"]), {"miss": 0.0, "dL": 0.0})
        a["miss"] = max(a["miss"], st.get("max_abs_miss", 0.0))
        a["dL"] = max(a["dL"], st.get("max_abs_dL", 0.0))
    fails = []
    for (ice, dz), a in agg.items():
        # the Basic tracer is not monotonically convergent from one dz to the next (measured); the claim checked is only that
        # the finest step (0.25) beats the coarsest (4) on the full lattice
        b = agg.get((ice, dz * 16))
        if b and b["miss"] > 0 and not (a["miss"] <= b["miss"] * 1.05 + 1e-6):
            fails.append({"check": "basic-convergence", "what": "%s Basic tracer: worst miss/rel. length error %.3g/%.3g at dz=%g exceed %.3g/%.3g at dz=%g"
                                                                % (ice, a["miss"], a["dL"], dz, b["miss"], b["dL"], dz * 4), "tags": {"group": "basic-convergence"}})
    return {"fails": fails, "coverage": {"basic_maxima": {"%s|dz=%g" % k: v for k, v in agg.items()}}}
