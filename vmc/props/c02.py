"""C02 -- ray solution sets respect reciprocity and the symmetries of stratified ice.

State graph: nodes are endpoint pairs (merged by their coordinates -- a tracer is a pure function of them), edges are the
generators SWAP, TRANSLATE (two vectors), ROTATE about the vertical (90, 180 exact; 37 degrees generic).  BFS to depth 2 from
every base geometry; the edge relation is checked on every edge with the real tracers.
"""
import collections
import math

import numpy as np

from ..engine import src

PID = "C02"
LEVEL = "model_checking"
RULE = ("base geometries (depth pairs x separations, offset from the origin, non axis-aligned azimuth) for Specialized, Basic(dz=1), Uniform "
        "(max_reflections 0..3) and two Layered stacks; BFS to depth 2 over {swap, translate(256,0), translate(-64,512), rotate 90, rotate 180, "
        "rotate 37}, every state traced by a new tracer AND by one tracer object re-pointed along the search; states = distinct endpoint pairs traced, transitions = edges checked; distinct_nontrivial = states with >= 1 solution")
ASSUMPTIONS = ["states reached by different routes are merged by their coordinates (sound: a tracer is a pure function of its endpoints)",
               "solutions are matched across an edge after sorting by time of flight",
               "attenuation is compared in log space; the Uniform tracer's left Riemann sum is direction dependent at the 1e-4 level"]
CHUNK = 1

GENS = ["swap", "t1", "t2", "r90", "r180", "r37"]
C37, S37 = math.cos(math.radians(37.0)), math.sin(math.radians(37.0))
FREQS = np.array([1e8, 5e8])


def _apply(gen, p0, p1):
    def rot(p, c, s):
        return (c * p[0] - s * p[1], s * p[0] + c * p[1], p[2])
    if gen == "swap":
        return p1, p0
    if gen == "t1":
        return (p0[0] + 256.0, p0[1], p0[2]), (p1[0] + 256.0, p1[1], p1[2])
    if gen == "t2":
        return (p0[0] - 64.0, p0[1] + 512.0, p0[2]), (p1[0] - 64.0, p1[1] + 512.0, p1[2])
    if gen == "r90":
        return rot(p0, 0.0, 1.0), rot(p1, 0.0, 1.0)
    if gen == "r180":
        return rot(p0, -1.0, 0.0), rot(p1, -1.0, 0.0)
    if gen == "r37":
        return rot(p0, C37, S37), rot(p1, C37, S37)
    raise ValueError(gen)


def _rotv(gen, v):
    c, s = {"r90": (0.0, 1.0), "r180": (-1.0, 0.0), "r37": (C37, S37)}.get(gen, (1.0, 0.0))
    return np.array([c * v[0] - s * v[1], s * v[0] + c * v[1], v[2]])


def _bases(kind, tier):
    n_q = tier == "quick"
    out = []
    if kind in ("specialized", "basic"):
        zs = [-20.0, -100.0, -200.0, -400.0, -800.0, -1500.0]
        rhos = [50.0, 200.0, 600.0] if n_q else [5.0, 50.0, 200.0, 600.0, 1500.0]
        for i, z0 in enumerate(zs):
            for z1 in zs[i:] if n_q else zs:
                for rho in rhos:
                    if kind == "basic" and (abs(z0 - z1) < 20 and z0 != z1):
                        continue
                    out.append(((100.0, -50.0, z0), (100.0 + 0.8 * rho, -50.0 + 0.6 * rho, z1)))
        if n_q:
            out = out[::3]
        # one end point outside the ice (above the surface / below the valid range): no ray either way
        out += [((100.0, -50.0, 5.0), (180.0, 10.0, -100.0)), ((100.0, -50.0, -2900.0), (180.0, 10.0, -200.0))]
    elif kind.startswith("uniform"):
        for z0 in (-100.0, -250.0, -700.0):
            for z1 in (-100.0, -400.0, -799.0):
                for rho in (0.0, 48.0, 400.0):
                    if rho == 0.0 and z0 == z1:
                        continue        # identical endpoints: directions are a convention, swap is not meaningful
                    out.append(((300.0, -200.0, z0), (300.0 + 0.8 * rho, -200.0 + 0.6 * rho, z1)))
        if n_q:
            out = out[::2]
        if kind == "uniform0":
            # endpoints exactly on the range bounds (no reflections involved)
            out += [((300.0, -200.0, 0.0), (340.0, -170.0, -800.0)), ((300.0, -200.0, -800.0), (340.0, -170.0, -300.0)),
                    ((300.0, -200.0, -300.0), (340.0, -170.0, 0.0))]
    else:
        for z0 in (-50.0, -150.0, -450.0):
            for z1 in (-80.0, -300.0, -850.0):
                for rho in (40.0, 300.0):
                    out.append(((64.0, -128.0, z0), (64.0 + 0.8 * rho, -128.0 + 0.6 * rho, z1)))
        if n_q:
            out = out[::3]
        # a receiver exactly on the internal boundary and exactly on the surface (the same ray must not be listed twice)
        zb = -200.0 if kind == "layered_uu" else -100.0
        for z0 in (-50.0, -450.0):
            for z1 in (zb, 0.0):
                out.append(((64.0, -128.0, z0), (64.0 + 240.0, -128.0 + 180.0, z1)))
        if kind == "layered_uu":
            # exactly vertical pairs: every upward-starting solution has launch angle 0, every downward-starting one pi
            out += [((64.0, -128.0, -50.0), (64.0, -128.0, -300.0)), ((64.0, -128.0, -350.0), (64.0, -128.0, -100.0))]
    return out


KINDS = ["specialized", "basic", "uniform0", "uniform1", "uniform2", "uniform3", "layered_uu", "layered_aa"]


def cases(tier, seed):
    out = []
    for kind in KINDS:
        for bi in range(len(_bases(kind, tier))):
            out.append({"tracer": kind, "base": bi, "tier": tier, "depth": 2})
    return out


_ICE = {}


def _tracer(kind, p0, p1):
    from pyrex import ray_tracing as rt
    from pyrex.ice_model import AntarcticIce, UniformIce
    if kind not in _ICE:
        if kind in ("specialized", "basic"):
            _ICE[kind] = AntarcticIce()
        elif kind.startswith("uniform"):
            _ICE[kind] = UniformIce(1.6, valid_range=(-800, 0), index_above=1.0, index_below=1.9)
        elif kind == "layered_uu":
            from pyrex.custom.layered_ice import LayeredIce
            _ICE[kind] = LayeredIce([UniformIce(1.5, valid_range=(-200, 0), index_above=1.0), UniformIce(1.7, valid_range=(-900, -200), index_below=None)])
        else:
            from pyrex.custom.layered_ice import LayeredIce
            _ICE[kind] = LayeredIce([AntarcticIce(valid_range=(-100, 0)), AntarcticIce(valid_range=(-2850, -100))])
    ice = _ICE[kind]
    if kind == "specialized":
        return rt.SpecializedRayTracer(p0, p1, ice)
    if kind == "basic":
        return rt.BasicRayTracer(p0, p1, ice, dz=1.0)
    if kind.startswith("uniform"):
        t = rt.UniformRayTracer(p0, p1, ice)
        t.max_reflections = int(kind[-1])
        return t
    from pyrex.custom.layered_ice import LayeredRayTracer
    return LayeredRayTracer(p0, p1, ice)


def _observe(kind, p0, p1, shared=None):
    """('ok', exists, [solution dicts sorted by tof]) or ('exc', text).  With `shared` (a one-element list holding a tracer,
    or None the first time) the SAME tracer object is re-pointed to the new endpoints instead of building a new one."""
    try:
        if shared is None:
            tr = _tracer(kind, p0, p1)
        elif shared[0] is None:
            tr = shared[0] = _tracer(kind, p0, p1)
        else:
            tr = shared[0]
            tr.from_point = np.array(p0, dtype=float)
            tr.to_point = np.array(p1, dtype=float)
        sols = tr.solutions
        ex = bool(tr.exists)
        out = []
        for p in sols:
            out.append({"L": float(p.path_length), "T": float(p.tof), "e": np.array(p.emitted_direction, dtype=float),
                        "r": np.array(p.received_direction, dtype=float),
                        "att": np.array(p.attenuation(FREQS), dtype=float)})
    except Exception as e:
        if src.exception_origin(e) != "library":
            raise
        return ("exc", src.short_tb(e), type(e).__name__)
    out.sort(key=lambda d: d["T"])
    return ("ok", ex, out)


def _key(p0, p1):
    return tuple(round(c, 6) for c in p0 + p1)


def evaluate(case):
    kind = case["tracer"]
    base = _bases(kind, case["tier"])[case["base"]]
    fails = []
    states = {}
    trans = 0
    gradient = kind in ("specialized", "basic")
    rt_generic = 1e-9
    if kind == "specialized":
        rt_swap, rt_att = 2e-6, 2e-3
        rt_generic = 1e-6          # launch-angle root finding (xtol 1e-12 on the angle) amplified for steep rays
    elif kind == "basic":
        rt_swap, rt_att = 1e-9, 1e-9
    elif kind.startswith("uniform"):
        rt_swap, rt_att = 1e-9, 1e-3
    else:
        rt_swap, rt_att = 2e-6, 2e-3
        if kind == "layered_aa":
            rt_generic = 1e-6

    shared = [None]
    reused_bad = []

    def obs(p0, p1):
        k = _key(p0, p1)
        if k not in states:
            states[k] = _observe(kind, p0, p1)
            # the same answer must come from ONE tracer object that is re-pointed from state to state along the search
            again = _observe(kind, p0, p1, shared)
            ok = again[0] == states[k][0]
            if ok and again[0] == "ok":
                ok = again[1] == states[k][1] and len(again[2]) == len(states[k][2]) and all(
                    np.array_equal(np.asarray(x[n_]), np.asarray(y[n_]), equal_nan=True)
                    for x, y in zip(again[2], states[k][2]) for n_ in ("L", "T", "e", "r", "att"))
            if not ok:
                reused_bad.append((p0, p1, again, states[k]))
        return states[k]

    dz_ = abs(base[0][2] - base[1][2])
    rho_ = math.hypot(base[0][0] - base[1][0], base[0][1] - base[1][1])
    near_vertical = bool((gradient or kind == "layered_aa") and rho_ < 0.12 * dz_)      # n sin(theta) < ~0.1..0.2: the ill-conditioned class of C01 (K4)

    def fail(check, hist, what, **tags):
        tags.update(tracer=kind, group="%s|%s" % (check, kind[:7]), near_vertical=near_vertical)
        fails.append({"check": check, "what": "%s base %s -> %s: %s" % (kind, base, list(hist), what), "tags": tags, "size": len(hist),
                      "replay": dict(case)})

    frontier = collections.deque([((), base[0], base[1])])
    seen = {_key(*base)}
    o = obs(*base)
    if o[0] == "exc":
        fail("exception", (), o[1], exc=o[2])
        return {"n": 1, "nontrivial": [], "fails": fails, "states": 1, "transitions": 0}
    while frontier:
        hist, p0, p1 = frontier.popleft()
        a = obs(p0, p1)
        if a[0] == "ok":
            if a[1] != (len(a[2]) > 0):
                fail("exists", hist, "exists=%r with %d solutions" % (a[1], len(a[2])))
            if gradient and len(a[2]) not in (0, 2):
                fail("solution-count", hist, "%d solutions" % len(a[2]))
        if len(hist) >= case["depth"] or a[0] != "ok":
            continue
        for g in GENS:
            q0, q1 = _apply(g, p0, p1)
            b = obs(q0, q1)
            trans += 1
            h2 = hist + (g,)
            if b[0] == "exc":
                fail("exception", h2, b[1], exc=b[2], generator=g)
                continue
            if len(a[2]) != len(b[2]):
                fail("count-changes", h2, "%d solutions before, %d after %s" % (len(a[2]), len(b[2]), g), generator=g)
                continue
            exact = g in ("t1", "t2", "r90", "r180")
            rt = rt_swap if g == "swap" else max(rt_generic, 1e-9 if exact else 1e-7)
            # match solutions across the edge: equal times of flight first, then the best direction match (two reflected
            # solutions can have exactly the same length, so sorting alone is ambiguous)
            pairs = []
            unused = list(range(len(b[2])))
            for sa in a[2]:
                if g == "swap":
                    we = -sa["r"]
                else:
                    we = _rotv(g, sa["e"])
                best = min(unused, key=lambda j: (abs(b[2][j]["T"] - sa["T"]) > 1e-4 * sa["T"], float(np.max(np.abs(b[2][j]["e"] - we))), abs(b[2][j]["T"] - sa["T"])))
                unused.remove(best)
                pairs.append((sa, b[2][best]))
            # paths that cross the uniform-index depth carry the rounding noise of the tracer's closed-form junction terms
            # (DESIGN C01: dL ~ 4 eps / (beta^2 (n0 (1 - uniformity_factor))^2 a), millimetres at beta ~ 0.3)
            crosses = kind in ("specialized", "layered_aa") and min(p0[2], p1[2]) < -764.0
            if crosses:
                rt = max(rt, 2e-5)
            for i, (sa, sb) in enumerate(pairs):
                for name in ("L", "T"):
                    if not abs(sa[name] - sb[name]) <= rt * abs(sa[name]):
                        fail("invariant-" + name, h2, "solution %d: %s = %.12g before, %.12g after %s" % (i, name, sa[name], sb[name], g), generator=g,
                             reflections=int(kind[-1]) if kind.startswith("uniform") else -1)
                la, lb = np.log(np.maximum(sa["att"], 1e-300)), np.log(np.maximum(sb["att"], 1e-300))
                tol_att = (max(rt_att, rt * 10) if g == "swap" else max(rt, 1e-9) * 10) * np.abs(la) + 1e-9
                if not np.all(np.abs(la - lb) <= tol_att):
                    fail("invariant-attenuation", h2, "solution %d: attenuation %s before, %s after %s" % (i, sa["att"].tolist(), sb["att"].tolist(), g), generator=g)
                if g == "swap":
                    want_e, want_r = -sa["r"], -sa["e"]
                else:
                    want_e, want_r = _rotv(g, sa["e"]), _rotv(g, sa["r"])
                dtol = 1e-6 if g == "swap" else (1e-9 if exact else 1e-7)
                if kind == "specialized":
                    dtol = 1e-5
                if crosses:
                    dtol = max(dtol, 2e-4)
                if not (np.max(np.abs(sb["e"] - want_e)) <= dtol and np.max(np.abs(sb["r"] - want_r)) <= dtol):
                    fail("directions", h2, "solution %d: after %s emitted %s received %s, expected %s / %s"
                         % (i, g, sb["e"].tolist(), sb["r"].tolist(), want_e.tolist(), want_r.tolist()), generator=g)
            k = _key(q0, q1)
            if k not in seen:
                seen.add(k)
                frontier.append((h2, q0, q1))
    for p0, p1, again, fresh in reused_bad[:3]:
        fail("reused-tracer", (), "one tracer object re-pointed to %s -> %s answers %s, a new tracer %s"
             % (list(p0), list(p1), str(again)[:200], str(fresh)[:200]))
    nontriv = ["%s|%s" % (kind, k) for k, v in states.items() if v[0] == "ok" and len(v[2])]
    return {"n": trans, "nontrivial": nontriv, "fails": fails, "states": len(states), "transitions": trans,
            "sample": {"tracer": kind, "base": [list(base[0]), list(base[1])], "generators": GENS}}
