"""C03 -- ray propagation is passive, delays by the time of flight, polarization transverse.

Exhaustive finite lattice: ray solutions of all four tracers (direct, refracted, surface-reflected incl. total internal
reflection, vertical and almost vertical) x input signals x polarization vectors x attenuation-interpolation steps.
Oracles: longhand DFT reconstruction of the propagated signal from the path's attenuation / Fresnel / polarization
projections; the attenuation itself against an independent line integral of ds / L_att along the RK4-marched ray (or the
straight legs for uniform ice).
"""
import itertools
import math

import numpy as np

from ..engine import src
from ..oracles import dft, rays

PID = "C03"
LEVEL = "exploration"
RULE = ("ray solutions of {Specialized (Antarctic, Greenland), Basic(dz=1), Uniform with up to 2 reflections (incl. total internal "
        "reflection), Layered U|U and A|A} x signals {delta at 1, N/2, N-2; two-tone} x N in {64, 65} x polarizations {x, y, z, s, p, mixed "
        "non-unit} x attenuation_interpolation {None, 0.05, 0.1, 0.5, 1.0, 2.0, 5.0}; distinct_nontrivial = distinct (solution, signal, polarization, "
        "interpolation) with a non-zero output")
ASSUMPTIONS = ["attenuation reference = independent quadrature of ds/L_att(z,f) along the RK4-marched ray (tolerance 3e-3 |ln A| + 1e-9)",
               "amplitude transmission coefficients into a lower-index layer may exceed 1 (power flux is conserved); |F| <= 1 is demanded for "
               "reflections and index-matched transmissions only",
               "with interpolation step s the effective attenuation at f may be any chord value (linear in f or in log f) between exact "
               "attenuation values at nodes a <= f <= b inside the signal's band with b/a <= 10^s; the band edges are nodes"]
CHUNK = 1

DT = 2.0 ** -31
GEOMS = [
    ("specialized", "antarctic", (100.0, -50.0, -200.0), 300.0, -100.0),
    ("specialized", "antarctic", (100.0, -50.0, -100.0), 500.0, -1500.0),
    ("specialized", "antarctic", (100.0, -50.0, -50.0), 400.0, -60.0),
    ("specialized", "antarctic", (100.0, -50.0, -300.0), 0.0, -100.0),
    ("specialized", "antarctic", (100.0, -50.0, -300.0), 0.01, -100.0),
    ("specialized", "greenland", (0.0, 0.0, -150.0), 250.0, -30.0),
    # both ends below the uniform-index depth (-765 m): the index is flat there, the attenuation length is not
    ("specialized", "antarctic", (100.0, -50.0, -2700.0), 1500.0, -800.0),
    ("specialized", "antarctic", (100.0, -50.0, -900.0), 400.0, -1300.0),
    ("basic", "antarctic", (100.0, -50.0, -200.0), 300.0, -100.0),
    ("basic", "greenland", (0.0, 0.0, -150.0), 250.0, -30.0),
    ("uniform", "u16", (300.0, -200.0, -250.0), 400.0, -400.0),
    ("uniform", "u16", (300.0, -200.0, -100.0), 48.0, -700.0),
    ("uniform", "u16", (300.0, -200.0, -100.0), 0.0, -700.0),
    ("layered", "uu", (64.0, -128.0, -50.0), 300.0, -450.0),
    ("layered", "aa", (64.0, -128.0, -50.0), 300.0, -300.0),
]
INTERP = [None, 0.05, 0.1, 0.5, 1.0, 2.0, 5.0]


_DEV_CACHE = {}


def _interp_deviation(path, fpos, s):
    """Largest |A_eff(f) - A(f)| any admissible interpolation of step `s` (decades) can produce on the positive frequencies
    `fpos` of the signal: A_eff(f) is a chord value -- linear in f or in log f -- between exact values at nodes a <= f <= b with
    fmin <= a, b <= fmax, b <= a 10^s.  The supremum over the node positions is taken on a 48-point logarithmic grid (plus the
    extreme admissible positions) and padded by 2 % of the attenuation range for what lies between grid points."""
    fpos = np.unique(np.asarray(fpos, float))
    key = (id(path), float(s), len(fpos), float(fpos[0]), float(fpos[-1]))
    if key in _DEV_CACHE and _DEV_CACHE[key][0] is path:
        return _DEV_CACHE[key][1]
    fmin, fmax = float(fpos[0]), float(fpos[-1])
    G = np.unique(np.concatenate((np.logspace(math.log10(fmin), math.log10(fmax), 48), fpos)))
    AG = np.asarray(path.attenuation(G), float)
    lg = np.log10(G)
    k = 10.0 ** s
    worst = 0.0
    for f in fpos:
        af = float(np.interp(math.log10(f), lg, AG))
        lo_a = max(fmin, f / k)
        a = np.concatenate((G[(G >= lo_a) & (G <= f)], [lo_a, f]))
        Aa = np.interp(np.log10(a), lg, AG)
        # for each a: b ranges over the grid points in [f, min(fmax, a k)] plus the two ends
        for ai, Aai in zip(a, Aa):
            hi_b = min(fmax, ai * k)
            if hi_b < f:
                continue
            b = np.concatenate((G[(G >= f) & (G <= hi_b)], [hi_b]))
            b = b[b > ai * (1 + 1e-9)]
            if not len(b):
                continue
            Ab = np.interp(np.log10(b), lg, AG)
            w1 = (f - ai) / (b - ai)
            w2 = (math.log10(f) - math.log10(ai)) / (np.log10(b) - math.log10(ai))
            dev = max(float(np.max(np.abs(Aai + w1 * (Ab - Aai) - af))), float(np.max(np.abs(Aai + w2 * (Ab - Aai) - af))))
            worst = max(worst, dev)
    out = worst + 0.02 * abs(float(AG[0] - AG[-1]))
    _DEV_CACHE[key] = (path, out)
    return out


def cases(tier, seed):
    out = []
    for gi in range(len(GEOMS)):
        for n in (64, 65):
            out.append({"geom": gi, "N": n})
    return out


def _ice(name):
    from pyrex.ice_model import AntarcticIce, GreenlandIce, UniformIce
    if name == "antarctic":
        return AntarcticIce()
    if name == "greenland":
        return GreenlandIce()
    if name == "u16":
        return UniformIce(1.6, valid_range=(-800, 0), index_above=1.0, index_below=1.9)
    from pyrex.custom.layered_ice import LayeredIce
    if name == "uu":
        return LayeredIce([UniformIce(1.5, valid_range=(-200, 0), index_above=1.0), UniformIce(1.7, valid_range=(-900, -200), index_below=None)])
    return LayeredIce([AntarcticIce(valid_range=(-100, 0)), AntarcticIce(valid_range=(-2850, -100), index_above=None)])


def _solutions(kind, ice, p0, p1):
    from pyrex import ray_tracing as rt
    if kind == "specialized":
        return rt.SpecializedRayTracer(p0, p1, ice).solutions
    if kind == "basic":
        return rt.BasicRayTracer(p0, p1, ice, dz=1.0).solutions
    if kind == "uniform":
        t = rt.UniformRayTracer(p0, p1, ice)
        t.max_reflections = 2
        return t.solutions
    from pyrex.custom.layered_ice import LayeredRayTracer
    return LayeredRayTracer(p0, p1, ice).solutions


def _signals(n):
    t = (np.arange(n) + 7) * DT
    out = {}
    for k in (1, n // 2, n - 2):
        v = np.zeros(n)
        v[k] = 1.0
        out["delta%d" % k] = v
    out["two_tone"] = np.array([math.sin(2 * math.pi * 5 * i / n) + 0.5 * math.cos(2 * math.pi * 13 * i / n + 0.3) for i in range(n)])
    return t, out


def _independent_attenuation(kind, ice_name, ice, path, p0, p1, freqs):
    """exp(-int ds / L_att) computed independently of the path's own integrals; None where not available"""
    if kind in ("specialized", "basic"):
        e = np.asarray(path.emitted_direction, float)
        rho = math.hypot(p1[0] - p0[0], p1[1] - p0[1])
        L = float(path.path_length)

        def alen(z, f):
            return np.asarray(ice.attenuation_length(np.asarray(z, float), np.asarray(f, float)), float)
        m = rays.march(ice.n0, ice.k, ice.a, ice.valid_range[1], np.array([p0[2]]), np.array([math.hypot(e[0], e[1])]), np.array([e[2]]),
                       np.array([rho]), np.array([p1[2]]), np.array([L]), nsteps=3000, atten=(alen, np.asarray(freqs, float)))
        pre = "p0_" if path.direct else "p1_"
        if m[pre + "miss"][0] > 0.05 + 1e-4 * L:
            return None
        return np.exp(-m[pre + "att"][0])
    if kind == "uniform":
        xs, ys, zs = (np.asarray(v, float) for v in path.coordinates)
        gx, gw = np.polynomial.legendre.leggauss(48)
        tot = np.zeros(len(freqs))
        for k in range(len(zs) - 1):
            seg = math.sqrt((xs[k + 1] - xs[k]) ** 2 + (ys[k + 1] - ys[k]) ** 2 + (zs[k + 1] - zs[k]) ** 2)
            zz = 0.5 * (zs[k] + zs[k + 1]) + 0.5 * (zs[k + 1] - zs[k]) * gx
            al = np.asarray(ice.attenuation_length(zz, np.asarray(freqs, float)), float)
            tot += 0.5 * seg * (gw @ (1.0 / al))
        return np.exp(-tot)
    return None


def _fresnel(n1, n2, sin1):
    """amplitude reflection coefficients (r_s, r_p) for incidence from n1 onto n2, total internal reflection included"""
    cos1 = math.sqrt(max(0.0, 1 - sin1 * sin1))
    sin2 = n1 / n2 * sin1
    cos2 = math.sqrt(1 - sin2 * sin2) if sin2 <= 1 else 1j * math.sqrt(sin2 * sin2 - 1)
    return ((n1 * cos1 - n2 * cos2) / (n1 * cos1 + n2 * cos2), (n2 * cos1 - n1 * cos2) / (n2 * cos1 + n1 * cos2))


def evaluate(case):
    from pyrex.signals import Signal
    kind, ice_name, p0, rho, z1 = GEOMS[case["geom"]]
    n = case["N"]
    ice = _ice(ice_name)
    p0 = np.array(p0)
    p1 = np.array([p0[0] + 0.8 * rho, p0[1] + 0.6 * rho, z1])
    fails = []
    nontriv = []
    nev = 0
    stats = {}
    gtag = "%s/%s %s -> %s" % (kind, ice_name, p0.tolist(), p1.tolist())
    vertical = rho == 0.0

    def fail(check, what, **tags):
        tags.update(group=check + ("|vertical" if vertical else ""), tracer=kind, vertical=vertical)
        fails.append({"check": check, "what": "%s: %s" % (gtag, what), "tags": tags})
    try:
        sols = _solutions(kind, ice, p0, p1)
    except Exception as e:
        if src.exception_origin(e) != "library":
            raise
        fail("exception", src.short_tb(e))
        return {"n": 1, "nontrivial": [], "fails": fails}
    t, sigs = _signals(n)
    f2n = dft.freqs(2 * n, DT)
    ladder = np.array([1e7, 5e7, 1e8, 2e8, 5e8, 1e9])
    accepts_interp = kind in ("specialized", "basic")
    for si, path in enumerate(sols):
        tof = float(path.tof)
        # ---- attenuation: in (0,1], non-increasing with |f|, equal to the independent line integral -------------------
        try:
            A_lad = np.asarray(path.attenuation(ladder), float)
            A_neg = np.asarray(path.attenuation(-ladder), float)
        except Exception as e:
            if src.exception_origin(e) != "library":
                raise
            fail("exception", "solution %d attenuation: %s" % (si, src.short_tb(e)))
            continue
        nev += 1
        if not (np.all(A_lad > 0) and np.all(A_lad <= 1 + 1e-12)):
            fail("attenuation-range", "solution %d: attenuation %s outside (0,1]" % (si, A_lad.tolist()))
        if np.any(np.diff(A_lad) > 1e-12):
            fail("attenuation-monotone", "solution %d: attenuation grows with frequency: %s" % (si, A_lad.tolist()))
        if not np.allclose(A_lad, A_neg, rtol=1e-12, atol=0):
            fail("attenuation-abs-f", "solution %d: attenuation(-f) != attenuation(f)" % si)
        ind = _independent_attenuation(kind, ice_name, ice, path, p0, p1, ladder)
        if ind is not None:
            la, li = np.log(A_lad), np.log(np.maximum(ind, 1e-300))
            tol = 3e-3 * np.abs(li) + 1e-9
            if kind == "uniform":
                tol = 2e-2 * np.abs(li) + 1e-9     # left Riemann sum with dz=1 (documented step)
            if kind == "basic":
                tol = 2e-2 * np.abs(li) + 1e-9
            if not np.all(np.abs(la - li) <= tol):
                fail("attenuation-integral", "solution %d: ln attenuation %s, independent integral of ds/L_att %s" % (si, la.tolist(), li.tolist()))
        # ---- Fresnel coefficients and polarization vectors ----------------------------------------------------------------
        fr = path.fresnel
        r_s, r_p = complex(fr[0]), complex(fr[1])
        transmits_down = kind == "layered"
        if not transmits_down and not (abs(r_s) <= 1 + 1e-12 and abs(r_p) <= 1 + 1e-12):
            fail("fresnel-magnitude", "solution %d: Fresnel coefficients (%r, %r) exceed 1" % (si, r_s, r_p))
        e_dir = np.asarray(path.emitted_direction, float)
        r_dir = np.asarray(path.received_direction, float)
        # independent Fresnel amplitudes (standard formulas, from the geometry): gradient-index paths reflecting off the surface,
        # uniform-ice paths as the product over their reflection points
        want = None
        if kind in ("specialized", "basic"):
            n_top = ice.n0 - ice.k * math.exp(ice.a * ice.valid_range[1])
            beta = (ice.n0 - ice.k * math.exp(ice.a * p0[2])) * math.hypot(e_dir[0], e_dir[1])
            if path.direct or beta >= n_top:        # direct, or turns over below the surface
                want = (1.0 + 0j, 1.0 + 0j)
            else:
                want = _fresnel(n_top, float(ice.index_above), beta / n_top)
        elif kind == "uniform":
            xs_, ys_, zs_ = (np.asarray(v, float) for v in path.coordinates)
            ws, wp = 1.0 + 0j, 1.0 + 0j
            for k_ in range(1, len(zs_) - 1):
                n2 = float(ice.index_above) if zs_[k_] == ice.valid_range[1] else float(ice.index_below)
                hor = math.hypot(xs_[k_] - xs_[k_ - 1], ys_[k_] - ys_[k_ - 1])
                seg = math.sqrt(hor ** 2 + (zs_[k_] - zs_[k_ - 1]) ** 2)
                a_, b_ = _fresnel(float(ice.n), n2, hor / seg)
                ws, wp = ws * a_, wp * b_
            want = (ws, wp)
        if want is not None and not (abs(r_s - want[0]) <= 1e-9 and abs(r_p - want[1]) <= 1e-9):
            fail("fresnel-value", "solution %d: Fresnel coefficients (%r, %r), standard formulas give (%r, %r)" % (si, r_s, r_p, want[0], want[1]))
        try:
            u_s, u_p = path.propagate(polarization=np.array([1.0, 0.0, 0.0]))
        except Exception as e:
            if src.exception_origin(e) != "library":
                raise
            fail("exception", "solution %d propagate(polarization only): %s" % (si, src.short_tb(e)))
            continue
        u_s, u_p = np.asarray(u_s, float), np.asarray(u_p, float)
        vec_ok = (abs(np.linalg.norm(u_s) - 1) <= 1e-12 and abs(np.linalg.norm(u_p) - 1) <= 1e-12 and abs(u_s @ u_p) <= 1e-12
                  and abs(u_s @ r_dir) <= 1e-9 and abs(u_p @ r_dir) <= 1e-9)
        if not vec_ok:
            fail("polarization-vectors", "solution %d: returned vectors s=%s p=%s are not unit / orthogonal / transverse to the received direction %s"
                 % (si, u_s.tolist(), u_p.tolist(), r_dir.tolist()))
        # emitted-frame unit vectors (independent construction)
        zhat = np.array([0.0, 0.0, 1.0])
        s0 = np.cross(e_dir, zhat)
        s0 = s0 / np.linalg.norm(s0) if np.linalg.norm(s0) > 0 else s0
        p0v = np.cross(s0, e_dir)
        p0v = p0v / np.linalg.norm(p0v) if np.linalg.norm(p0v) > 0 else p0v
        pols = {"x": np.array([1.0, 0.0, 0.0]), "y": np.array([0.0, 1.0, 0.0]), "z": zhat, "s": s0, "p": p0v,
                "mixed": np.array([0.5, -2.0, 1.5])}
        outs = {}
        for (sname, vals), (pname, pol), interp in itertools.product(sigs.items(), pols.items(), INTERP):
            if interp is not None and not accepts_interp:
                continue
            if interp is not None and (sname != "two_tone" and pname != "mixed"):
                continue
            nev += 1
            sig = Signal(t, vals.copy(), Signal.Type.field)
            kw = {} if interp is None else {"attenuation_interpolation": interp}
            try:
                (o_s, o_p), (v_s, v_p) = path.propagate(sig, polarization=pol, **kw)
            except Exception as e:
                if src.exception_origin(e) != "library":
                    raise
                fail("exception", "solution %d propagate(%s, %s, interpolation=%r): %s" % (si, sname, pname, interp, src.short_tb(e)))
                continue
            lab = "solution %d signal %s polarization %s interpolation %r" % (si, sname, pname, interp)
            if np.any(sig.values != vals) or np.any(sig.times != t):
                fail("input-mutated", lab + ": the input signal was modified")
            ok_grid = np.array_equal(o_s.times, t + tof) and np.array_equal(o_p.times, t + tof)
            if not ok_grid:
                fail("delay", lab + ": output grid is not the input grid + tof (first sample %r, expected %r)" % (float(o_s.times[0]), float(t[0] + tof)))
            # reference: Re IDFT(H DFT(pad x)), H = A(|f|) r (pol . u)
            A2n = np.asarray(path.attenuation(np.abs(f2n)), float)
            exp_s = np.real(dft.idft(A2n * np.where(f2n < 0, np.conj(r_s), r_s) * dft.dft(np.concatenate((vals, np.zeros(n))))))[:n] * float(pol @ s0)
            exp_p = np.real(dft.idft(A2n * np.where(f2n < 0, np.conj(r_p), r_p) * dft.dft(np.concatenate((vals, np.zeros(n))))))[:n] * float(pol @ p0v)
            got_s, got_p = np.asarray(o_s.values, float), np.asarray(o_p.values, float)
            scale = max(1.0, float(np.max(np.abs(vals)))) * max(1.0, float(np.linalg.norm(pol)))
            if interp is None:
                if not (np.max(np.abs(got_s - exp_s)) <= 1e-10 * scale and np.max(np.abs(got_p - exp_p)) <= 1e-10 * scale):
                    fail("propagated-signal", lab + ": output differs from Re IDFT(A r (pol.u) DFT(pad x)) by %.3g / %.3g"
                         % (np.max(np.abs(got_s - exp_s)), np.max(np.abs(got_p - exp_p))))
                outs[(sname, pname)] = (got_s, got_p)
            else:
                fpos = np.abs(f2n[f2n != 0])
                bound = _interp_deviation(path, fpos, interp)
                slack = (bound + 1e-9) * float(np.sum(np.abs(vals))) * float(np.linalg.norm(pol))
                stats["max_interp_dev_over_bound"] = max(stats.get("max_interp_dev_over_bound", 0.0),
                                                         float(max(np.max(np.abs(got_s - exp_s)), np.max(np.abs(got_p - exp_p))) / slack))
                if not (np.max(np.abs(got_s - exp_s)) <= slack and np.max(np.abs(got_p - exp_p)) <= slack):
                    fail("interpolated-attenuation", lab + ": output differs from the exact-attenuation result by %.3g, more than the interpolation bound %.3g"
                         % (max(np.max(np.abs(got_s - exp_s)), np.max(np.abs(got_p - exp_p))), slack))
            # passivity
            e_in = float(np.sum(vals ** 2)) * float(pol @ pol)
            e_out = float(np.sum(got_s ** 2) + np.sum(got_p ** 2))
            if not transmits_down and not e_out <= e_in * (1 + 1e-9) + 1e-300:
                fail("passive", lab + ": output energy %.6g exceeds |pol|^2 x input energy %.6g" % (e_out, e_in))
            if e_out > 0:
                nontriv.append("%s|%s" % (gtag, lab))
            elif pname in ("s", "p", "mixed") and e_in > 0 and np.linalg.norm(s0) > 0:
                fail("vanishing-output", lab + ": the propagated signal vanishes")
            if np.linalg.norm(s0) == 0 and e_in > 0 and pname in ("x", "y", "mixed") and e_out == 0:
                fail("vanishing-output", lab + ": the propagated signal vanishes (s/p unit vectors are zero for an exactly vertical ray)")
        # the same path object is re-used for signals on other time grids (same length, other step; other length): every call
        # must be the filter for *its* frequencies, whatever was propagated before (history: propagate, propagate, propagate)
        for step_mul, nn in ((16.0, n), (1.0, n), (0.25, n), (1.0, n // 2)):
            for interp in ((None, 0.1) if accepts_interp else (None,)):
                tt = (np.arange(nn) + 7) * DT * step_mul
                # (with interpolation: a unit impulse, for which the l1 bound on the time-domain error is sharp)
                vv = sigs["two_tone"][:nn].copy() if interp is None else sigs["delta1"][:nn].copy()
                kw = {} if interp is None else {"attenuation_interpolation": interp}
                try:
                    (o_s, o_p), _ = path.propagate(Signal(tt, vv.copy(), Signal.Type.field), polarization=pols["mixed"], **kw)
                except Exception as e:
                    if src.exception_origin(e) != "library":
                        raise
                    fail("exception", "solution %d re-use with dt x %g: %s" % (si, step_mul, src.short_tb(e)))
                    continue
                nev += 1
                ff = dft.freqs(2 * nn, DT * step_mul)
                Aff = np.asarray(path.attenuation(np.abs(ff)), float)
                X = dft.dft(np.concatenate((vv, np.zeros(nn))))
                e_s = np.real(dft.idft(Aff * np.where(ff < 0, np.conj(r_s), r_s) * X))[:nn] * float(pols["mixed"] @ s0)
                e_p = np.real(dft.idft(Aff * np.where(ff < 0, np.conj(r_p), r_p) * X))[:nn] * float(pols["mixed"] @ p0v)
                scale = float(np.max(np.abs(vv))) * float(np.linalg.norm(pols["mixed"]))
                if interp is None:
                    slack = 1e-10 * scale
                else:
                    fpos = np.abs(ff[ff != 0])
                    slack = (_interp_deviation(path, fpos, interp) + 1e-9) * float(np.sum(np.abs(vv))) * float(np.linalg.norm(pols["mixed"]))
                d = max(float(np.max(np.abs(np.asarray(o_s.values) - e_s))), float(np.max(np.abs(np.asarray(o_p.values) - e_p))))
                if not d <= slack or not np.array_equal(o_s.times, tt + tof):
                    fail("reused-path", "solution %d: after earlier propagate calls, a signal with N=%d, dt x %g, interpolation %r comes out %.3g away from "
                                        "its own filter (allowed %.3g)" % (si, nn, step_mul, interp, d, slack))
        # a function-backed (lazily evaluated) input, as every shipped Askaryan model is: the two returned signals are evaluated
        # only after propagate has returned -- whatever the filters close over must still be theirs by then
        if ("two_tone", "mixed") in outs:
            from pyrex.signals import FunctionSignal
            tv = sigs["two_tone"]

            def sampled(tq, tv=tv):
                idx = np.rint((np.asarray(tq, dtype=float) - t[0]) / DT).astype(int)
                ok = (idx >= 0) & (idx < n)
                return np.where(ok, tv[np.clip(idx, 0, n - 1)], 0.0)
            try:
                (o_s, o_p), _ = path.propagate(FunctionSignal(t, sampled, Signal.Type.field), polarization=pols["mixed"])
                nev += 1
                g_s, g_p = np.asarray(o_s.values, float), np.asarray(o_p.values, float)
                w_s, w_p = outs[("two_tone", "mixed")]
                if not (np.array_equal(o_s.times, t + tof) and np.array_equal(o_p.times, t + tof)):
                    fail("delay", "solution %d, FunctionSignal input: output grid is not the input grid + tof" % si)
                elif not (np.max(np.abs(g_s - w_s)) <= 1e-10 * max(1.0, float(np.max(np.abs(tv)))) and
                          np.max(np.abs(g_p - w_p)) <= 1e-10 * max(1.0, float(np.max(np.abs(tv))))):
                    fail("propagated-function-signal", "solution %d: a FunctionSignal with the same samples comes out %.3g (s) / %.3g (p) away "
                         "from the propagated sampled signal" % (si, np.max(np.abs(g_s - w_s)), np.max(np.abs(g_p - w_p))))
            except Exception as e:
                if src.exception_origin(e) != "library":
                    raise
                fail("exception", "solution %d propagate(FunctionSignal): %s" % (si, src.short_tb(e)))
        # linearity in the signal and in the polarization (no interpolation)
        if ("delta1", "x") in outs and ("two_tone", "x") in outs:
            comb = 2.0 * sigs["delta1"] - 0.5 * sigs["two_tone"]
            try:
                (o_s, o_p), _ = path.propagate(Signal(t, comb, Signal.Type.field), polarization=pols["x"])
                nev += 1
                e_s = 2.0 * outs[("delta1", "x")][0] - 0.5 * outs[("two_tone", "x")][0]
                e_p = 2.0 * outs[("delta1", "x")][1] - 0.5 * outs[("two_tone", "x")][1]
                if not (np.max(np.abs(np.asarray(o_s.values) - e_s)) <= 1e-12 * 4 and np.max(np.abs(np.asarray(o_p.values) - e_p)) <= 1e-12 * 4):
                    fail("linear-signal", "solution %d: propagate(2a - 0.5b) != 2 propagate(a) - 0.5 propagate(b)" % si)
                polc = pols["x"] * 2.0 - 0.5 * pols["z"]
                (o_s, o_p), _ = path.propagate(Signal(t, sigs["two_tone"].copy(), Signal.Type.field), polarization=polc)
                nev += 1
                e_s = 2.0 * outs[("two_tone", "x")][0] - 0.5 * outs[("two_tone", "z")][0]
                e_p = 2.0 * outs[("two_tone", "x")][1] - 0.5 * outs[("two_tone", "z")][1]
                if not (np.max(np.abs(np.asarray(o_s.values) - e_s)) <= 1e-12 * 8 and np.max(np.abs(np.asarray(o_p.values) - e_p)) <= 1e-12 * 8):
                    fail("linear-polarization", "solution %d: propagate is not linear in the polarization vector" % si)
            except Exception as e:
                if src.exception_origin(e) != "library":
                    raise
                fail("exception", "solution %d linearity: %s" % (si, src.short_tb(e)))
    return {"n": nev, "nontrivial": nontriv, "fails": fails, "stats": stats, "sample": {"geometry": gtag, "N": n, "solutions": len(sols)}}
