"""C04 -- signals keep times/values aligned, copy independently, combine pointwise.

Explicit-state BFS over a pool of three registers holding *real* signal objects; a plain
reference model (oracles/sigmodel.M) is carried alongside every register and compared
after every transition, together with the arrays the harness handed to the library
(they must never change) and the memory-alias partition of all public arrays.
"""
import copy
import itertools

import numpy as np

from ..engine import graph, src
from ..oracles import sigmodel as sm

PID = "C04"
LEVEL = "model_checking"
RULE = ("BFS over pools of 3 registers of real Signal/EmptySignal/FunctionSignal objects: every ordered pair of "
        "a 13-entry catalogue (classes x value types x grids incl. length 1/2, shifted, 2^40*dt offset) as initial state, "
        "every action of the alphabet (copy, with_times on 5 grids, +, 0+, *c, c*, /c, *=, /=, shift, value_type set, "
        "in-place poke of public arrays, set_buffers, filter) at every state to the tier's depth, plus the constructor "
        "lattice len(times) x len(values) in 0..4; distinct_nontrivial = distinct canonical states (models of all registers "
        "+ identity partition) reached")
ASSUMPTIONS = ["reference model mirrors the documented with_times buffer rule of FunctionSignal",
               "result class of an addition is not constrained beyond values/times/type (DESIGN C04)",
               "poke (in-place +=1 on .times/.values) is applied to plain Signal registers only"]
DETERMINISM_CASES = 1
CHUNK = 1

DT = 0.25
G1 = [k * DT for k in range(5)]
V1 = [0.5, -1.0, 2.0, 0.25, -0.5]
V2 = [1.0, 0.0, -0.75, 4.0, 0.125]
V3 = [-2.0, 0.5, 0.5, 1.0, 3.0]
BIG = 2.0 ** 40 * DT

FUNCS = sm.make_funcs(DT)
FUNCS["scalar_only"] = sm.scalar_only_factory(DT)
FILTERS = sm.make_filters(DT)

# with_times grids: name -> (times, pass_as)
WT_GRIDS = {
    "same": (G1, "array"),
    "subset": (G1[1:4], "array"),
    "half": ([0.125 + k * DT for k in range(4)], "array"),
    "disjoint": ([10.0 + k * DT for k in range(3)], "array"),
    "wider_list": ([-0.5 + k * DT for k in range(8)], "list"),
}


def _catalogue():
    from pyrex.signals import Signal, EmptySignal, FunctionSignal

    class MyPulse(FunctionSignal):
        def __init__(self, times):
            super().__init__(times, FUNCS["tri"], value_type=Signal.Type.field)

    T = Signal.Type
    g2 = [t + 2 * DT for t in G1]
    gb = [t + BIG for t in G1]
    cat = {
        "S_u": lambda: (Signal(np.array(G1), np.array(V1)), sm.M("Signal", G1, sm.UNDEF, V1)),
        "S_v": lambda: (Signal(np.array(G1), np.array(V2), T.voltage), sm.M("Signal", G1, sm.VOLT, V2)),
        "S_f": lambda: (Signal(list(G1), list(V3), "field"), sm.M("Signal", G1, sm.FIELD, V3)),
        "S_g2": lambda: (Signal(np.array(g2), np.array(V1), T.voltage), sm.M("Signal", g2, sm.VOLT, V1)),
        "S_len1": lambda: (Signal([1.0], [3.0], T.voltage), sm.M("Signal", [1.0], sm.VOLT, [3.0])),
        "S_len2": lambda: (Signal([0.0, DT], [1.0, 2.0]), sm.M("Signal", [0.0, DT], sm.UNDEF, [1.0, 2.0])),
        "S_big": lambda: (Signal(np.array(gb), np.array(V1), T.voltage), sm.M("Signal", gb, sm.VOLT, V1)),
        "E_u": lambda: (EmptySignal(np.array(G1)), sm.M("Empty", G1, sm.UNDEF, [0.0] * 5)),
        "E_v": lambda: (EmptySignal(np.array(G1), T.voltage), sm.M("Empty", G1, sm.VOLT, [0.0] * 5)),
        "F_u": lambda: (FunctionSignal(np.array(G1), FUNCS["tri"]),
                        sm.M("Function", G1, sm.UNDEF, comps=[["tri", 0.0, 0.0, 0.0, 1.0, []]])),
        "F_v": lambda: (FunctionSignal(np.array(G1), FUNCS["step"], T.voltage),
                        sm.M("Function", G1, sm.VOLT, comps=[["step", 0.0, 0.0, 0.0, 1.0, []]])),
        "F_sub": lambda: (MyPulse(np.array(G1)),
                          sm.M("Function", G1, sm.FIELD, comps=[["tri", 0.0, 0.0, 0.0, 1.0, []]], cls="MyPulse")),
        "F_early": lambda: (FunctionSignal(np.array(G1), FUNCS["early"], T.voltage),
                            sm.M("Function", G1, sm.VOLT, comps=[["early", 0.0, 0.0, 0.0, 1.0, []]])),
    }
    return cat


CAT_NAMES = ["S_u", "S_v", "S_f", "S_g2", "S_len1", "S_len2", "S_big", "E_u", "E_v", "F_u", "F_v", "F_sub", "F_early"]


def _actions():
    acts = []
    for i in range(3):
        acts.append(("copy", i))
        for g in WT_GRIDS:
            acts.append(("with_times", i, g))
        for j in range(3):
            acts.append(("add", i, j))
        acts.append(("sum0", i))
        acts.append(("mul", i))
        acts.append(("rmul", i))
        acts.append(("div", i))
        acts.append(("imul", i))
        acts.append(("idiv", i))
        acts.append(("shift", i))
        acts.append(("settype", i, sm.VOLT))
        acts.append(("settype", i, sm.FIELD))
        acts.append(("poke", i))
        acts.append(("set_buffers", i))
        acts.append(("filter", i))
    return acts


ACTIONS = _actions()


class State:
    def __init__(self):
        self.regs = [None, None, None]
        self.models = [None, None, None]
        self.ext = []          # [(array or list handed to the library, pristine copy)]
        self.note = None       # failure noticed inside step()


def _initial(a, b):
    def factory():
        cat = _catalogue()
        st = State()
        st.regs[0], st.models[0] = cat[a]()
        st.regs[1], st.models[1] = cat[b]()
        return st
    return factory


def cases(tier, seed):
    depth = 2 if tier == "quick" else 3
    cs = [{"kind": "bfs", "a": a, "b": b, "depth": depth} for a in CAT_NAMES for b in CAT_NAMES]
    if tier == "thorough":
        # depth 3 on the full catalogue squared is ~10^7 transitions; thorough explores depth 3 from every pair
        pass
    cs.append({"kind": "ctor"})
    return cs


def _vtype(obj):
    return obj.value_type.value


def _kind_of(obj):
    from pyrex.signals import EmptySignal, FunctionSignal
    if isinstance(obj, FunctionSignal):
        return "Function"
    if isinstance(obj, EmptySignal):
        return "Empty"
    return "Signal"


def step(st, a):
    """Apply action `a` with the real library; a library exception is a failure of this transition."""
    try:
        return _step(st, a)
    except Exception as e:
        if src.exception_origin(e) != "library":
            raise
        st.note = ("exception", "%s raised %s" % (a[0], src.short_tb(e)))
        return st


def _step(st, a):
    from pyrex.signals import Signal
    op = a[0]
    i = a[1]
    obj, mod = st.regs[i], st.models[i]
    if obj is None or mod is None:
        return None
    st.note = None
    T = Signal.Type

    def put(newobj, newmod):
        st.regs[2] = newobj
        if newmod is not None and _kind_of(newobj) != newmod.kind:
            # class of a result is not constrained by the property: stop modelling this register
            # unless the model can follow (a non-function object can be modelled by its eager values)
            if _kind_of(newobj) == "Function":
                newmod = None
            else:
                newmod = sm.M(_kind_of(newobj), newmod.times, newmod.vtype,
                              newmod.values(FUNCS, FILTERS).tolist())
        st.models[2] = newmod

    if op == "copy":
        put(obj.copy(), _as_base(mod.copy()))
    elif op == "with_times":
        times, how = WT_GRIDS[a[2]]
        arg = np.array(times) if how == "array" else list(times)
        st.ext.append((arg, copy.deepcopy(arg)))
        new = obj.with_times(arg)
        if mod.kind == "Signal":
            nm = sm.M("Signal", times, mod.vtype, sm.interp_linear(times, mod.times, mod.vals))
        elif mod.kind == "Empty":
            nm = sm.M("Empty", times, mod.vtype, [0.0] * len(times))
        else:
            nm = _as_base(mod.copy())
            nm.times = [float(t) for t in times]
            if times[0] >= mod.times[0] and times[-1] <= mod.times[-1]:
                for c in nm.comps:
                    c[2] = max(c[2], times[0] - mod.times[0])
                    c[3] = max(c[3], mod.times[-1] - times[-1])
        put(new, nm)
    elif op == "add":
        j = a[2]
        o2, m2 = st.regs[j], st.models[j]
        if o2 is None or m2 is None:
            return None
        refuse = (mod.times != m2.times) or (mod.vtype != sm.UNDEF and m2.vtype != sm.UNDEF and mod.vtype != m2.vtype)
        try:
            new = obj + o2
        except ValueError:
            if not refuse:
                st.note = ("add-refused", "addition of compatible signals was refused")
            return st
        if refuse:
            st.note = ("add-accepted", "addition of signals with %s was not refused"
                       % ("different time grids" if mod.times != m2.times else "incompatible value types"))
            return st
        vt = mod.vtype if mod.vtype != sm.UNDEF else m2.vtype
        if mod.kind == "Function" and m2.kind == "Function":
            nm = _as_base(mod.copy())
            nm.comps += [list(c[:5]) + [list(c[5])] for c in m2.comps]
        elif mod.kind == "Function" and m2.kind == "Empty":
            nm = _as_base(mod.copy())
        elif mod.kind == "Empty":
            nm = _as_base(m2.copy())
        else:
            nm = sm.M("Signal", mod.times, vt,
                      (mod.values(FUNCS, FILTERS) + m2.values(FUNCS, FILTERS)).tolist())
        nm.vtype = vt
        put(new, nm)
    elif op == "sum0":
        new = 0 + obj
        if new is not obj:
            st.note = ("sum0-identity", "0 + signal did not return the signal itself")
        return st
    elif op in ("mul", "rmul", "div"):
        c = 2.0 if op != "div" else 4.0
        new = obj * c if op == "mul" else (c * obj if op == "rmul" else obj / c)
        f = c if op != "div" else 1 / c
        if mod.kind == "Function":
            nm = _as_base(mod.copy())
            for comp in nm.comps:
                comp[4] = comp[4] * f
        else:
            nm = sm.M("Signal", mod.times, mod.vtype, [v * f for v in mod.vals])
        put(new, nm)
    elif op in ("imul", "idiv"):
        f = 2.0 if op == "imul" else 0.25
        if op == "imul":
            obj *= 2.0
        else:
            obj /= 4.0
        if obj is not st.regs[i]:
            st.note = ("inplace-identity", "in-place scaling rebound the signal to a new object")
        if mod.kind == "Function":
            for comp in mod.comps:
                comp[4] = comp[4] * f
        else:
            mod.vals = [v * f for v in mod.vals]
    elif op == "shift":
        s = 3 * DT
        obj.shift(s)
        mod.times = [t + s for t in mod.times]
        if mod.kind == "Function":
            for comp in mod.comps:
                comp[1] = comp[1] + s
    elif op == "settype":
        obj.value_type = T(a[2])
        mod.vtype = a[2]
    elif op == "poke":
        if mod.kind != "Signal":
            return None
        obj.times += 1.0
        obj.values += 1.0
        mod.times = [t + 1.0 for t in mod.times]
        mod.vals = [v + 1.0 for v in mod.vals]
    elif op == "set_buffers":
        if mod.kind != "Function":
            return None
        obj.set_buffers(leading=2 * DT)
        for comp in mod.comps:
            comp[2] = max(comp[2], 2 * DT)
    elif op == "filter":
        if mod.kind != "Function":
            return None
        obj.filter_frequencies(FILTERS["delay2"][0], force_real=True)
        for comp in mod.comps:
            comp[5].append(("delay2", True))
    # registers that are the *same object* share their model
    for k in range(3):
        for l in range(k):
            if st.regs[k] is not None and st.regs[k] is st.regs[l]:
                st.models[k] = st.models[l]
    return st


def _as_base(m):
    m.cls = m.kind
    return m


def _arrays(obj):
    out = []
    for name in ("times", "values"):
        try:
            v = getattr(obj, name)
        except Exception:
            continue
        if isinstance(v, np.ndarray):
            out.append((name, v))
    return out


def check(st, hist, a):
    fails = []
    if st.note:
        fails.append({"check": st.note[0], "what": st.note[1]})
    # argument arrays handed to the library never change
    for arg, pristine in st.ext:
        if not np.array_equal(np.asarray(arg), np.asarray(pristine)):
            fails.append({"check": "argument-mutated",
                          "what": "an array passed to with_times was modified later: %s -> %s"
                                  % (np.asarray(pristine).tolist(), np.asarray(arg).tolist())})
    for k in range(3):
        obj, mod = st.regs[k], st.models[k]
        if obj is None or mod is None:
            continue
        try:
            times = np.asarray(obj.times, dtype=float)
            vals = np.asarray(obj.values, dtype=float)
            vt = _vtype(obj)
        except Exception as e:
            if src.exception_origin(e) != "library":
                raise
            fails.append({"check": "read-exception", "what": "r%d: reading times/values raised %s" % (k, src.short_tb(e))})
            continue
        if len(times) != len(vals):
            fails.append({"check": "length", "what": "r%d: %d times but %d values" % (k, len(times), len(vals))})
            continue
        if times.tolist() != mod.times:
            fails.append({"check": "times", "what": "r%d: times %s, model %s" % (k, times.tolist(), mod.times)})
            continue
        exp = mod.values(FUNCS, FILTERS)
        filt = mod.kind == "Function" and any(c[5] for c in mod.comps)
        tol = (1e-12 if filt else 1e-15) * max(1.0, float(np.max(np.abs(exp))) if len(exp) else 1.0)
        if not np.all(np.abs(vals - exp) <= tol):
            fails.append({"check": "values", "what": "r%d (%s): values %s, model %s" % (k, mod.kind, vals.tolist(), exp.tolist())})
        if vt != mod.vtype:
            fails.append({"check": "value_type", "what": "r%d: value_type %r, model %r" % (k, vt, mod.vtype)})
        if mod.kind == "Function":
            # the cached values may hide a corrupted definition: a copy has no cache and re-evaluates it
            fresh = np.asarray(obj.copy().values, dtype=float)
            if fresh.shape != exp.shape or not np.all(np.abs(fresh - exp) <= tol):
                fails.append({"check": "definition", "what": "r%d: a fresh copy evaluates to %s, model %s (cached values %s)"
                                                             % (k, fresh.tolist(), exp.tolist(), vals.tolist())})
        # no aliasing with harness-held arguments
        for name, arr in _arrays(obj):
            for arg, _ in st.ext:
                if isinstance(arg, np.ndarray) and np.shares_memory(arr, arg):
                    fails.append({"check": "aliases-argument",
                                  "what": "r%d.%s shares memory with the array passed in by the caller" % (k, name)})
        for arg, _ in st.ext:
            if obj.times is arg:
                fails.append({"check": "aliases-argument",
                              "what": "r%d.times is the very %s object passed in by the caller" % (k, type(arg).__name__)})
    # no aliasing between distinct registers
    for k in range(3):
        for l in range(k):
            if st.regs[k] is None or st.regs[l] is None or st.regs[k] is st.regs[l]:
                continue
            for n1, a1 in _arrays(st.regs[k]):
                for n2, a2 in _arrays(st.regs[l]):
                    if np.shares_memory(a1, a2):
                        fails.append({"check": "aliases-operand",
                                      "what": "r%d.%s shares memory with r%d.%s" % (k, n1, l, n2)})
    return fails


def canon(st):
    ids = []
    for k in range(3):
        ids.append(next((l for l in range(k) if st.regs[k] is not None and st.regs[l] is st.regs[k]), k))
    return (tuple(None if m is None else m.key() for m in st.models), tuple(ids),
            tuple(st.regs[k] is None for k in range(3)))


def _replay_history(a, b, hist):
    st = _initial(a, b)()
    out = check(st, (("init", a + "," + b),), None)
    done = [("init", a + "," + b)]
    for act in hist:
        act = tuple(act)
        st2 = step(st, act)
        done.append(act)
        if st2 is None:
            return [{"check": "replay", "what": "action %r not enabled" % (act,)}]
        st = st2
        out = check(st, tuple(done), act)
        if out:
            return out
    return out


def _ctor(case):
    """Constructor lattice: every (len(times), len(values)) in 0..4 squared, for arrays and lists."""
    from pyrex.signals import Signal
    fails = []
    n = 0
    nontriv = []
    for nt in range(5):
        for nv in range(5):
            for how in ("array", "list", "int-times array", "int-times list", "int-values array"):
                times = [k * DT for k in range(nt)]
                vals = [float(k + 1) for k in range(nv)]
                if how.startswith("int-times"):
                    # an integer-typed time grid (np.arange(n)) with non-integral values: the values keep their own type
                    times = [k for k in range(nt)]
                    vals = [k + 0.5 if k % 2 else -(k + 0.25) for k in range(nv)]
                ta = np.array(times) if how.endswith("array") else list(times)
                va = np.array(vals) if how.endswith("array") else list(vals)
                if how == "int-values array":
                    va = np.array([k + 1 for k in range(nv)], dtype=np.int64)
                n += 1
                try:
                    s = Signal(ta, va)
                except Exception as e:
                    fails.append({"check": "ctor-exception", "what": "Signal(%d times, %d values as %s) raised %s"
                                  % (nt, nv, how, src.short_tb(e)), "tags": {"nt": nt, "nv": nv}})
                    continue
                exp = (vals + [0.0] * nt)[:nt]
                if list(s.times) != times or list(s.values) != exp:
                    fails.append({"check": "ctor-align", "what": "Signal(%d times, %d values as %s): values %s expected %s"
                                  % (nt, nv, how, list(s.values), exp), "tags": {"nt": nt, "nv": nv}})
                if how.endswith("array") and ((nt and np.shares_memory(s.times, ta)) or
                                       (nt and nv and np.shares_memory(s.values, va))):
                    fails.append({"check": "ctor-alias", "what": "Signal(%d,%d) shares memory with its arguments" % (nt, nv),
                                  "tags": {"nt": nt, "nv": nv}})
                nontriv.append("ctor|%d|%d|%s" % (nt, nv, how))
    # "only adding the integer 0, as sum does, returns the signal itself": other falsy left operands are not the integer 0
    from pyrex.signals import EmptySignal, FunctionSignal
    tt = np.array([k * DT for k in range(4)])
    for mk in (lambda: Signal(tt, [1.0, 2.0, 3.0, 4.0]), lambda: EmptySignal(tt), lambda: FunctionSignal(tt, lambda x: np.asarray(x) * 0 + 1.0)):
        for left in (None, "", [], (), {}):
            sig = mk()
            n += 1
            try:
                res = left + sig
            except Exception:
                continue
            if res is sig:
                fails.append({"check": "radd-not-zero", "what": "%r + %s returned the signal itself (only the integer 0 does)"
                                                                % (left, type(sig).__name__), "tags": {"left": repr(left)}})
        n += 1
        sig = mk()
        if (0 + sig) is not sig:
            fails.append({"check": "radd-zero", "what": "0 + %s did not return the signal itself" % type(sig).__name__, "tags": {}})
    return {"n": n, "nontrivial": nontriv, "fails": fails, "states": n, "transitions": n,
            "sample": {"ctor": "Signal(times[0..4], values[0..4]) as arrays and lists"}}


def evaluate(case):
    if case["kind"] == "ctor":
        return _ctor(case)
    if case["kind"] == "replay":
        fails = _replay_history(case["a"], case["b"], case["history"])
        return {"n": 1, "nontrivial": [], "fails": fails}
    a, b = case["a"], case["b"]
    res = graph.bfs([(a + "," + b, _initial(a, b))], ACTIONS, step, check, canon, case["depth"],
                    clone=copy.deepcopy, observe=None)
    fails = []
    for hist, f in res.failures:
        f = dict(f)
        f["what"] = "init(%s,%s) %s: %s" % (a, b, " ; ".join("%s%r" % (x[0], tuple(x[1:])) for x in hist[1:]), f["what"])
        f["tags"] = {"group": f["check"], "a": a, "b": b, "last": hist[-1][0]}
        f["size"] = len(hist)
        f["replay"] = {"kind": "replay", "a": a, "b": b, "history": [list(x) for x in hist[1:]]}
        fails.append(f)
    return {"n": res.transitions, "nontrivial": ["%s,%s#%d" % (a, b, k) for k in range(res.states)],
            "fails": fails, "states": res.states, "transitions": res.transitions,
            "stats": {"max_depth": res.max_depth, "per_action": dict(res.per_action)},
            "sample": res.samples[0] if res.samples else None}
