"""C05 -- Signal.filter_frequencies: linear, real-preserving, passive, shift-invariant, no wrap-around.

Exhaustive finite lattice (DESIGN §4 C05): signal length x sampling step x grid offset x
force_real x response function x input signal.  Oracle: longhand DFT reference (numpy.fft
is the trusted base only above N = 65), plus the algebraic relations of the statement.
"""
import cmath
import math

import numpy as np

from ..oracles import dft

PID = "C05"
LEVEL = "exploration"
RULE = ("full product N (quick: 11 lengths; thorough: every length 2..40 and lengths around 64/128/2048) x dt x grid offset x force_real, and inside each: every response of the alphabet x every "
        "input of the alphabet (all unit impulses for N<=17; impulses at 0,1,N/2,N-2,N-1, ramp, alternating "
        "otherwise); distinct_nontrivial = distinct (N, dt, offset, force_real, response, input) tuples whose output is "
        "not identically zero")
ASSUMPTIONS = ["numpy.fft is trusted as reference above N=65 (below, the reference DFT is written out longhand)",
               "the no-wrap guarantee is stated for |delay| <= window length (DESIGN C05 S)"]

NS_Q = [2, 3, 4, 5, 8, 9, 16, 17, 64, 65, 2048]
NS_T = list(range(2, 41)) + [63, 64, 65, 127, 128, 129, 2048, 2049]
DTS_Q = [2.0 ** -33, 2.0 ** -20, 1.0]
DTS_T = [2.0 ** -33, 2.0 ** -30, 2.0 ** -20, 2.0 ** -10, 1.0]
OFFSETS = [0, -7, 1024]


def cases(tier, seed):
    ns = NS_Q if tier == "quick" else NS_T
    dts = DTS_Q if tier == "quick" else DTS_T
    out = []
    for n in ns:
        for dt in dts:
            for fr in (False, True):
                out.append({"N": n, "dt": dt, "force_real": fr})
    return out


# ---- response alphabet -------------------------------------------------------------------
def responses(n, dt):
    """name -> (vectorised-or-not callable given to the library, scalar reference callable, max |R|, delay)"""
    fc = 0.1 / dt
    out = {}

    def add(name, lib, ref, maxabs=1.0, delay=None):
        out[name] = (lib, ref, maxabs, delay)

    add("unit", lambda f: np.ones(np.shape(f)) if np.ndim(f) else 1.0, lambda f: 1.0)
    add("half", lambda f: 0.5 * np.ones(np.shape(f)) if np.ndim(f) else 0.5, lambda f: 0.5)
    g_ = 1.0 - 2.0 ** -18            # within 4e-6 of the unit response, but not the unit response
    add("near_unit", lambda f, g_=g_: g_ * np.ones(np.shape(f)) if np.ndim(f) else g_, lambda f, g_=g_: g_)
    add("half_j", lambda f: 0.5j * np.ones(np.shape(f)) if np.ndim(f) else 0.5j, lambda f: 0.5j)
    for tau in sorted({1, 2, n // 2, n - 1, n, -1}):
        if tau == 0:
            continue
        def lib(f, tau=tau):
            return np.exp(-2j * np.pi * np.asarray(f) * tau * dt)
        def ref(f, tau=tau):
            return cmath.exp(-2j * math.pi * f * tau * dt)
        add("delay%+d" % tau, lib, ref, 1.0, tau)
    add("lowpass", lambda f: 1 / (1 + 1j * np.asarray(f) / fc), lambda f: 1 / (1 + 1j * f / fc))
    add("posfreq", lambda f: np.where(np.asarray(f) > 0, 1 / (1 + 1j * np.asarray(f) / fc), 0),
        lambda f: (1 / (1 + 1j * f / fc)) if f > 0 else 0.0)

    def scalar_typeerror(f):
        return 1 / (1 + 1j * math.fabs(f) / fc)          # math.fabs(array) -> TypeError
    add("scalar_TypeError", scalar_typeerror, scalar_typeerror)

    def scalar_valueerror(f):
        if f > 0:                                        # truth value of an array -> ValueError
            return 0.25 + 0.5j
        return 0.75
    add("scalar_ValueError", scalar_valueerror, scalar_valueerror)
    # a tabulated response: the same complex array object is handed back for the same frequency array, as a memoised gain
    # table would; the library must treat it as read-only (checked after the run via `.table` / `.pristine`)
    table, pristine = {}, {}

    def tabulated(f):
        if not np.ndim(f):
            return complex(1 / (1 + 1j * float(f) / fc)) * cmath.exp(-2j * math.pi * float(f) * dt)
        f = np.asarray(f, dtype=float)
        key = f.tobytes()
        if key not in table:
            table[key] = np.asarray(1 / (1 + 1j * f / fc) * np.exp(-2j * np.pi * f * dt), dtype=np.complex128)
            pristine[key] = table[key].copy()
        return table[key]
    tabulated.table, tabulated.pristine = table, pristine
    add("tabulated", tabulated, lambda f: (1 / (1 + 1j * f / fc)) * cmath.exp(-2j * math.pi * f * dt))
    add("list_valued", lambda f: [0.5 - 0.25j] * len(f) if np.ndim(f) else 0.5 - 0.25j, lambda f: 0.5 - 0.25j)
    return out


def inputs(n):
    out = {}
    ks = range(n) if n <= 17 else sorted({0, 1, n // 2, n - 2, n - 1})
    for k in ks:
        v = np.zeros(n)
        v[k] = 1.0
        out["delta%d" % k] = v
    out["ramp"] = np.arange(n, dtype=float) / 4 - 1.0
    out["alternating"] = np.array([(-1.0) ** i * (1 + (i % 3)) for i in range(n)])
    return out


def evaluate(case):
    from pyrex.signals import Signal
    n, dt, fr = case["N"], case["dt"], case["force_real"]
    only = case.get("only")
    fails = []
    nontriv = []
    neval = 0
    max_ratio = 0.0
    use_fft = n > 65
    ins = inputs(n)
    base_times = np.arange(n) * dt
    for rname, (lib, ref, maxabs, delay) in responses(n, dt).items():
        if only and only.get("response") != rname:
            continue
        outs = {}
        for iname, vals in ins.items():
            if only and only.get("input") not in (None, iname) and iname not in ("delta0", "ramp"):
                continue
            per_offset = []
            for off in OFFSETS:
                sig = Signal(base_times + off * dt, vals.copy())
                try:
                    sig.filter_frequencies(lib, force_real=fr)
                except Exception as e:   # every response of the alphabet is a legal argument
                    from ..engine import src
                    fails.append(_f("exception", case, rname, iname, "filter_frequencies raised " + src.short_tb(e)))
                    break
                neval += 1
                got = np.array(sig.values)
                if got.shape != (n,):
                    fails.append(_f("shape", case, rname, iname, "values shape %r != (%d,)" % (got.shape, n)))
                    continue
                if not np.array_equal(sig.times, base_times + off * dt):
                    fails.append(_f("times-changed", case, rname, iname, "filtering changed the time grid"))
                per_offset.append(got)
            if len(per_offset) != len(OFFSETS):
                continue
            got = per_offset[0]
            outs[iname] = got
            scale = max(1.0, float(np.max(np.abs(vals)))) * max(1.0, maxabs)
            tol = 1e-11 * scale
            # (a) grid-offset invariance: bit-identical on dyadic grids
            for off, g in zip(OFFSETS[1:], per_offset[1:]):
                if not np.array_equal(g, got):
                    fails.append(_f("offset-invariance", case, rname, iname,
                                    "result depends on grid offset %d*dt: max diff %.3g" % (off, np.max(np.abs(g - got)))))
            # (b) reference: Re IDFT_2N(R . DFT_2N(pad x))[:N]
            exp_real, _ = dft.filtered_reference(vals, dt, ref, fr, use_fft=use_fft)
            err = float(np.max(np.abs(got - exp_real)))
            max_ratio = max(max_ratio, err / tol)
            if not err <= tol:
                fails.append(_f("reference", case, rname, iname,
                                "differs from Re IDFT(R*DFT(pad x)) by %.3g (tol %.1g); got %s expected %s"
                                % (err, tol, got[:6].tolist(), exp_real[:6].tolist())))
            # (c) identity
            if rname == "unit" and not np.max(np.abs(got - vals)) <= tol:
                fails.append(_f("identity", case, rname, iname, "unit response changed the signal by %.3g"
                                % np.max(np.abs(got - vals))))
            # (d) passivity
            if maxabs <= 1.0 and not np.sum(got ** 2) <= np.sum(vals ** 2) * (1 + 1e-11) + 1e-300:
                fails.append(_f("passive", case, rname, iname, "energy grew from %.17g to %.17g"
                                % (np.sum(vals ** 2), np.sum(got ** 2))))
            # (e) pure delay moves samples later and drops what leaves the window (no wrap-around)
            if delay is not None:
                expd = np.zeros(n)
                if delay >= 0:
                    if delay < n:
                        expd[delay:] = vals[:n - delay]
                else:
                    expd[:n + delay] = vals[-delay:]
                if not np.max(np.abs(got - expd)) <= tol:
                    fails.append(_f("delay-no-wrap", case, rname, iname,
                                    "delay of %d samples: got %s expected %s" % (delay, got[:8].tolist(), expd[:8].tolist())))
            if np.any(got != 0):
                nontriv.append("%d|%g|%s|%s|%s" % (n, dt, fr, rname, iname))
        # (f) additivity and homogeneity in the signal, homogeneity in the response
        names = list(outs)
        if len(names) >= 2 and not only:
            a, b = names[0], names[-1]
            comb = 2.0 * ins[a] - 0.5 * ins[b]
            sig = Signal(base_times, comb)
            sig.filter_frequencies(lib, force_real=fr)
            neval += 1
            e = 2.0 * outs[a] - 0.5 * outs[b]
            tol = 1e-11 * max(1.0, float(np.max(np.abs(comb)))) * max(1.0, maxabs)
            if not np.max(np.abs(sig.values - e)) <= tol:
                fails.append(_f("linearity", case, rname, a + "+" + b, "filter(2x-0.5y) != 2 filter(x) - 0.5 filter(y): %.3g"
                                % np.max(np.abs(sig.values - e))))
            sig = Signal(base_times, ins[b].copy())
            sig.filter_frequencies(lambda f, lib=lib: 3.0 * np.asarray(lib(f)), force_real=fr)
            neval += 1
            if not np.max(np.abs(sig.values - 3.0 * outs[b])) <= 3 * tol:
                fails.append(_f("response-homogeneity", case, rname, b, "filter with 3R != 3 filter with R: %.3g"
                                % np.max(np.abs(sig.values - 3.0 * outs[b]))))
        if hasattr(lib, "table"):
            for key, arr in lib.table.items():
                if not np.array_equal(arr, lib.pristine[key]):
                    fails.append(_f("response-array-modified", case, rname, "delta0",
                                    "the array returned by the response function was modified in place by filter_frequencies "
                                    "(%d of %d entries changed)" % (int(np.sum(arr != lib.pristine[key])), arr.size)))
                    break
    # ---- function-backed signals: the same filter, applied once to the buffer-extended samples -----------------------------
    if n <= 65:
        from pyrex.signals import FunctionSignal
        nb, na = 3, 5
        m = n + nb + na
        t0 = -7 * dt
        exts = {"ramp": np.arange(m, dtype=float) / 8 - 0.5, "late_delta": np.zeros(m), "early_delta": np.zeros(m)}
        exts["late_delta"][n + nb + 1] = 1.0            # inside the trailing buffer
        exts["early_delta"][1] = 1.0                     # inside the leading buffer
        for rname, (lib, ref, maxabs, delay) in responses(n, dt).items():
            if only and only.get("response") != rname:
                continue
            for ename, w in exts.items():
                def func(t, w=w):
                    idx = np.rint((np.asarray(t, dtype=float) - t0) / dt).astype(int) + nb
                    ok = (idx >= 0) & (idx < m)
                    return np.where(ok, w[np.clip(idx, 0, m - 1)], 0.0)
                fs = FunctionSignal(t0 + np.arange(n) * dt, func)
                fs.set_buffers(leading=nb * dt, trailing=na * dt)
                try:
                    fs.filter_frequencies(lib, force_real=fr)
                    got = np.array(fs.values)
                except Exception as e:
                    from ..engine import src
                    fails.append(_f("exception", case, rname, "function:" + ename, "FunctionSignal filter raised " + src.short_tb(e)))
                    continue
                neval += 1
                exp_full, _ = dft.filtered_reference(w, dt, ref, fr, use_fft=2 * m > 160)
                exp = exp_full[nb:nb + n]
                tol = 1e-11 * max(1.0, float(np.max(np.abs(w)))) * max(1.0, maxabs)
                if got.shape != (n,) or not np.max(np.abs(got - exp)) <= tol:
                    fails.append(_f("function-signal-filter", case, rname, "function:" + ename,
                                    "buffered FunctionSignal (lead %d, trail %d samples): values %s..., filter of the buffer-extended samples cropped to the window %s..."
                                    % (nb, na, got[:5].tolist() if got.shape == (n,) else got.shape, exp[:5].tolist())))
                elif np.any(got != 0):
                    nontriv.append("%d|%g|%s|%s|fn:%s" % (n, dt, fr, rname, ename))
        # linearity across lazily evaluated sums: x filtered with R plus y filtered with the unit response (and with "half")
        # must be filter_R(x) + y (+ 0.5 y) -- each summand keeps its own response
        resp = responses(n, dt)
        for rname, (lib, ref, maxabs, delay) in resp.items():
            if only and only.get("response") != rname:
                continue
            for other in ("unit", "half"):
                if other == rname:
                    continue

                def mk(w):
                    def func(t, w=w):
                        idx = np.rint((np.asarray(t, dtype=float) - t0) / dt).astype(int) + nb
                        ok = (idx >= 0) & (idx < m)
                        return np.where(ok, w[np.clip(idx, 0, m - 1)], 0.0)
                    fs_ = FunctionSignal(t0 + np.arange(n) * dt, func)
                    fs_.set_buffers(leading=nb * dt, trailing=na * dt)
                    return fs_
                try:
                    a1, b1 = mk(exts["ramp"]), mk(exts["early_delta"])
                    a1.filter_frequencies(lib, force_real=fr)
                    b1.filter_frequencies(resp[other][0], force_real=fr)
                    want = np.array(a1.values) + np.array(b1.values)
                    a2, b2 = mk(exts["ramp"]), mk(exts["early_delta"])
                    a2.filter_frequencies(lib, force_real=fr)
                    b2.filter_frequencies(resp[other][0], force_real=fr)
                    got = np.array((a2 + b2).values)
                    # filtering the sum afterwards is the sum's business: the right-hand summand stays what it was
                    keep_b = np.array(b1.values)
                    tot = a2 + b2
                    tot.filter_frequencies(lib, force_real=fr)
                    _ = np.array(tot.values)
                    b_after = np.array(b2.values)
                    # the same response applied twice is the response squared, for a function-backed signal as for a sampled one
                    twice = mk(exts["ramp"])
                    twice.filter_frequencies(lib, force_real=fr)
                    twice.filter_frequencies(lib, force_real=fr)
                    got_twice = np.array(twice.values)
                    exp_twice, _ = dft.filtered_reference(exts["ramp"], dt, lambda f_, ref=ref: ref(f_) ** 2, fr, use_fft=2 * m > 160)
                    # mixed flags: this response with force_real, then a one-sample delay without it (each filter keeps its own
                    # flag: only the first is Hermitian-symmetrised); on a leading buffer of 3.5 samples
                    mixed = mk(exts["ramp"])
                    mixed.set_buffers(leading=(nb + 0.5) * dt, force=True)
                    mixed.filter_frequencies(lib, force_real=True)
                    mixed.filter_frequencies(resp["delay+1"][0], force_real=False)
                    got_mixed = np.array(mixed.values)
                    ext1 = np.concatenate(([0.0], exts["ramp"]))       # one more leading sample; the tabulated function is 0 out there
                    d1 = resp["delay+1"][1]
                    exp_mixed, _ = dft.filtered_reference(
                        ext1, dt, lambda f_, ref=ref, d1=d1: (complex(ref(abs(f_))) if f_ >= 0 else complex(ref(abs(f_))).conjugate()) * d1(f_),
                        False, use_fft=2 * (m + 1) > 160)
                except Exception as e:
                    from ..engine import src
                    fails.append(_f("exception", case, rname, "function:sum", "sum of filtered FunctionSignals raised " + src.short_tb(e)))
                    continue
                neval += 1
                tol = 1e-11 * max(1.0, float(np.max(np.abs(exts["ramp"])))) * max(1.0, maxabs)
                if not np.array_equal(b_after, keep_b):
                    fails.append(_f("function-signal-sum-operand", case, rname, "function:sum",
                                    "filtering (x + y) changed y: %s... before, %s... after" % (keep_b[:4].tolist(), b_after[:4].tolist())))
                if other == "unit" and (got_twice.shape != (n,) or not np.max(np.abs(got_twice - exp_twice[nb:nb + n])) <= tol * max(1.0, maxabs)):
                    fails.append(_f("function-signal-twice", case, rname, "function:sum",
                                    "a FunctionSignal filtered twice with the same response: %s..., the response squared gives %s..."
                                    % (got_twice[:4].tolist() if got_twice.shape == (n,) else got_twice.shape, exp_twice[nb:nb + 4].tolist())))
                if other == "unit" and rname != "delay+1" and (
                        got_mixed.shape != (n,) or not np.max(np.abs(got_mixed - exp_mixed[nb + 1:nb + 1 + n])) <= tol * max(1.0, maxabs)):
                    fails.append(_f("function-signal-mixed-flags", case, rname, "function:sum",
                                    "FunctionSignal with a 3.5-sample leading buffer, filtered with this response (force_real) and then a "
                                    "one-sample delay (no force_real): %s..., reference %s..."
                                    % (got_mixed[:4].tolist() if got_mixed.shape == (n,) else got_mixed.shape, exp_mixed[nb + 1:nb + 5].tolist())))
                if got.shape != want.shape or not np.max(np.abs(got - want)) <= tol:
                    fails.append(_f("function-signal-sum", case, rname, "function:sum",
                                    "(x filtered with %s) + (y filtered with %s) evaluates to %s..., the two summands evaluated separately "
                                    "add up to %s..." % (rname, other, got[:5].tolist(), want[:5].tolist())))
    return {"n": neval, "nontrivial": nontriv, "fails": fails,
            "stats": {"max_err_over_tol": max_ratio},
            "sample": {"N": n, "dt": dt, "force_real": fr, "responses": list(responses(n, dt))[:5],
                       "inputs": list(ins)[:5]}}


def _f(check, case, rname, iname, what):
    c = dict(case)
    c["only"] = {"response": rname, "input": iname.split("+")[0]}
    return {"check": check,
            "what": "N=%d dt=%g force_real=%s response=%s input=%s: %s" % (case["N"], case["dt"], case["force_real"],
                                                                       rname, iname, what),
            "tags": {"N": case["N"], "response": rname, "force_real": case["force_real"], "group": check},
            "replay": c, "size": case["N"]}
