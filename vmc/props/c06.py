"""C06 -- lazily evaluated signals and ray objects never serve stale values.

Choice tree (full product, d = infinity): an operation sequence of bounded depth over the
public mutating operations, times a read mask (is `.values` / the derived quantities read
before each operation?).  Two oracles per execution:
  (a) differential: the same operation list replayed on a fresh object with no intermediate
      reads must give identical observables (no hand-written expectation);
  (b) eager model (plain FunctionSignal only): sum over components of factor*f(t-t0) on the
      buffer-extended grid, through the product of that component's filters once (longhand
      DFT), cropped to the own grid.
"""
import itertools
import math

import numpy as np

from ..engine import rng, src
from ..oracles import sigmodel as sm

PID = "C06"
LEVEL = "exploration"
RULE = ("full product of operation sequences (depth<=2 quick / 3 thorough, 4 for the plain FunctionSignal) over the "
        "26-operation signal alphabet x all read masks, on 9 kinds of function-backed signals (plain 1- and 2-component, a memoising function, a grid-dependent function, "
        "ZHS/AVZ/ARZ Askaryan, FFT/Full thermal noise under OwnedRandom); and of attribute-assignment sequences "
        "(depth<=2/3) x read masks on Specialized/Basic/Uniform/Layered tracers and their paths; distinct_nontrivial = "
        "distinct (kind, op sequence, mask) with at least one read before a mutation")
ASSUMPTIONS = ["in-place element writes into arrays and mutation of the ice object are not public mutating operations",
               "differential oracle: a history with reads is compared against the same history without reads on a fresh object; ray objects also against a newly constructed object with the final defining attributes"]
CHUNK = 1
DETERMINISM_CASES = 2

DT = 2.0 ** -30
N = 9
GRID = [k * DT for k in range(N)]

FUNCS = sm.make_funcs(DT)
FUNCS["scalar_only"] = sm.scalar_only_factory(DT)
FILTERS = sm.make_filters(DT)


def _memo_factory():
    """A function that keeps what it computed: the same array object is handed back for the same grid (a tabulated waveform).
    Whoever evaluates it must treat the result as read-only."""
    table = {}

    def memo(ts):
        ts = np.asarray(ts, dtype=float)
        key = ts.tobytes()
        if key not in table:
            table[key] = np.asarray(FUNCS["tri"](ts), dtype=np.float64)
        return table[key]
    return memo


def _gridaware(ts):
    """Depends on the grid it is handed as a whole (like a running integral or an FFT-built pulse): a ramp counted from the
    first sample of that grid."""
    ts = np.asarray(ts, dtype=float)
    return 0.125 * (ts - ts[0]) / DT


FUNCS["gridaware"] = _gridaware

SIG_OPS = ["shift+3", "shift-5", "imul2", "idiv4", "filt_delay2", "filt_lowpass", "buf_lead4", "buf_trail3_force",
           "buf_zero_force", "resample17", "times_assign", "with_times_sub", "with_times_super", "add_late", "copy",
           # derive a child, mutate the child, keep going on the parent (no-ops on the parent if nothing is shared)
           "child_with_times_sub", "child_copy_filter", "child_sum_filter_buf",
           # augmented assignment: the attribute is mutated in place and the *same* object is assigned back
           "times_iadd",
           # same number of samples, twice the step (a cache keyed by length alone cannot tell the grids apart)
           "times_stretch", "with_times_stretch",
           # a second component that carries its own, different filter (same padded length as the first)
           "add_late_lowpass",
           # a filter without force_real next to filters with it; a leading buffer that is not a whole number of samples
           "filt_delay2_noforce", "buf_lead_frac", "buf_lead10",
           # a second component that carries a time offset of its own (it was shifted onto this grid before the addition)
           "add_late_shifted"]
SIG_KINDS = ["plain_early", "plain_two", "plain_memo", "plain_gridaware", "plain_decimal", "zhs", "avz", "arz", "fftnoise", "fullnoise"]
# a grid with a decimal step (0.1): buffer / dt is then subject to rounding (1.0 / 0.1 == 10.0 exactly but 1.0 % 0.1 != 0)
DEC_DT = 0.1
DEC_GRID = [float(x) for x in np.linspace(0.0, 10.0, 101)]
FUNCS["dec_tri"] = lambda t: np.where(np.abs(np.asarray(t, dtype=float) - 0.3) < 2.05, 1.0 - np.abs(np.asarray(t, dtype=float) - 0.3) / 2.05, 0.0)


# ------------------------------------------------------------------------------------------------
def _particle(em=1.0, had=0.0, energy=1e9, depth=-1000.0):
    from pyrex.particle import Particle, Interaction
    p = Particle(Particle.Type.electron_neutrino, vertex=(0, 0, depth), direction=(0, 0, -1), energy=energy,
                 interaction_model=Interaction)
    p.interaction.em_frac = em
    p.interaction.had_frac = had
    return p


def _make_signal(kind):
    """returns (object, model or None)"""
    from pyrex.signals import FunctionSignal, Signal, FFTThermalNoise, FullThermalNoise
    from pyrex import askaryan
    from pyrex.ice_model import AntarcticIce
    t = np.array(GRID)
    if kind == "plain_early":
        return (FunctionSignal(t, FUNCS["early"], Signal.Type.voltage),
                sm.M("Function", GRID, sm.VOLT, comps=[["early", 0.0, 0.0, 0.0, 1.0, []]]))
    if kind == "plain_two":
        s = FunctionSignal(t, FUNCS["tri"], Signal.Type.voltage) + FunctionSignal(t, FUNCS["scalar_only"])
        return s, sm.M("Function", GRID, sm.VOLT, comps=[["tri", 0.0, 0.0, 0.0, 1.0, []],
                                                         ["scalar_only", 0.0, 0.0, 0.0, 1.0, []]])
    if kind == "plain_memo":
        # the model evaluates the pure function "tri"; the library is handed the memoising wrapper
        return (FunctionSignal(t, _memo_factory(), Signal.Type.voltage),
                sm.M("Function", GRID, sm.VOLT, comps=[["tri", 0.0, 0.0, 0.0, 1.0, []]]))
    if kind == "plain_gridaware":
        return (FunctionSignal(t, FUNCS["gridaware"], Signal.Type.voltage),
                sm.M("Function", GRID, sm.VOLT, comps=[["gridaware", 0.0, 0.0, 0.0, 1.0, []]]))
    if kind == "plain_decimal":
        return (FunctionSignal(np.array(DEC_GRID), FUNCS["dec_tri"], Signal.Type.voltage),
                sm.M("Function", DEC_GRID, sm.VOLT, comps=[["dec_tri", 0.0, 0.0, 0.0, 1.0, []]]))
    if kind in ("zhs", "avz", "arz"):
        cls = {"zhs": askaryan.ZHSAskaryanSignal, "avz": askaryan.AVZAskaryanSignal,
               "arz": askaryan.ARZAskaryanSignal}[kind]
        tt = np.arange(32) * 2.0 ** -31 - 4 * 2.0 ** -31
        p = _particle(0.6, 0.4)
        th = math.acos(1 / 1.78) + math.radians(1.0)
        return cls(tt, p, th, viewing_distance=100.0, ice_model=AntarcticIce(), t0=3 * 2.0 ** -31), None
    if kind in ("fftnoise", "fullnoise"):
        cls = FFTThermalNoise if kind == "fftnoise" else FullThermalNoise
        tt = np.arange(16) * DT + 5 * DT
        with rng.owned(rng.WeylSource()):
            return cls(tt, (1 / (8 * DT), 3 / (8 * DT)), rms_voltage=1.0), None
    raise ValueError(kind)


def _apply_sig(obj, mod, op):
    """apply op to the real object (and the model, if any); returns (obj, mod)"""
    from pyrex.signals import FunctionSignal
    dt = obj.dt
    if op.startswith("shift"):
        s = (3 if op == "shift+3" else -5) * dt
        obj.shift(s)
        if mod:
            mod.times = [x + s for x in mod.times]
            for c in mod.comps:
                c[1] += s
    elif op == "imul2":
        obj *= 2.0
        if mod:
            for c in mod.comps:
                c[4] *= 2.0
    elif op == "idiv4":
        obj /= 4.0
        if mod:
            for c in mod.comps:
                c[4] /= 4.0
    elif op in ("filt_delay2", "filt_lowpass"):
        name = op[5:]
        # filters are defined for the base step DT; for other steps the differential oracle alone applies
        obj.filter_frequencies(FILTERS[name][0], force_real=True)
        if mod:
            for c in mod.comps:
                c[5].append((name, True))
    elif op == "filt_delay2_noforce":
        obj.filter_frequencies(FILTERS["delay2"][0], force_real=False)
        if mod:
            for c in mod.comps:
                c[5].append(("delay2", False))
    elif op == "buf_lead_frac":
        obj.set_buffers(leading=4.5 * dt)
        if mod:
            for c in mod.comps:
                c[2] = max(c[2], 4.5 * dt)
    elif op == "buf_lead10":
        obj.set_buffers(leading=10 * dt)
        if mod:
            for c in mod.comps:
                c[2] = max(c[2], 10 * dt)
    elif op == "buf_lead4":
        obj.set_buffers(leading=4 * dt)
        if mod:
            for c in mod.comps:
                c[2] = max(c[2], 4 * dt)
    elif op == "buf_trail3_force":
        obj.set_buffers(trailing=3 * dt, force=True)
        if mod:
            for c in mod.comps:
                c[3] = 3 * dt
    elif op == "buf_zero_force":
        obj.set_buffers(leading=0, trailing=0, force=True)
        if mod:
            for c in mod.comps:
                c[2] = 0.0
                c[3] = 0.0
    elif op == "resample17":
        n = 2 * (len(obj.times) - 1) + 1
        obj.resample(n)
        if mod:
            t0, t1 = mod.times[0], mod.times[-1]
            step = (t1 - t0) / (n - 1)
            mod.times = [t0 + k * step for k in range(n)]
    elif op == "times_assign":
        new = np.array(obj.times) + 2 * dt
        obj.times = new
        if mod:
            mod.times = [float(x) for x in new]
    elif op in ("with_times_sub", "with_times_super"):
        old = np.array(obj.times)
        if op == "with_times_sub":
            new = old[2:-1].copy()
        else:
            new = np.concatenate(([old[0] - 2 * dt, old[0] - dt], old, [old[-1] + dt]))
        res = obj.with_times(new)
        if mod:
            nm = mod.copy()
            nm.cls = "Function"
            nm.times = [float(x) for x in new]
            if new[0] >= old[0] and new[-1] <= old[-1]:
                for c in nm.comps:
                    c[2] = max(c[2], float(new[0] - old[0]))
                    c[3] = max(c[3], float(old[-1] - new[-1]))
            mod = nm
        obj = res
    elif op == "add_late":
        other = FunctionSignal(np.array(obj.times), FUNCS["late"])
        obj = obj + other
        if mod:
            mod = mod.copy()
            mod.comps.append(["late", 0.0, 0.0, 0.0, 1.0, []])
    elif op == "add_late_shifted":
        other = FunctionSignal(np.array(obj.times) - 2 * dt, FUNCS["late"])
        other.shift(2 * dt)
        other.times = np.array(obj.times)          # exactly the same grid (the shift leaves rounding in the last place)
        obj = obj + other
        if mod:
            mod = mod.copy()
            mod.comps.append(["late", 2 * dt, 0.0, 0.0, 1.0, []])
    elif op == "add_late_lowpass":
        other = FunctionSignal(np.array(obj.times), FUNCS["late"])
        other.filter_frequencies(FILTERS["lowpass"][0], force_real=True)
        obj = obj + other
        if mod:
            mod = mod.copy()
            mod.comps.append(["late", 0.0, 0.0, 0.0, 1.0, [("lowpass", True)]])
    elif op == "copy":
        obj = obj.copy()
        if mod:
            mod = mod.copy()
    elif op == "times_iadd":
        obj.times += 2 * dt
        if mod:
            mod.times = [x + 2 * dt for x in mod.times]
    elif op in ("times_stretch", "with_times_stretch"):
        old = np.array(obj.times)
        new = old[0] + 2.0 * (old - old[0])
        if op == "times_stretch":
            obj.times = new
            if mod:
                mod.times = [float(x) for x in new]
        else:
            obj = obj.with_times(new)
            if mod:
                mod = mod.copy()
                mod.cls = "Function"
                mod.times = [float(x) for x in new]
    elif op == "child_with_times_sub":
        child = obj.with_times(np.array(obj.times)[2:-1].copy())
        child.set_buffers(trailing=2 * dt)
    elif op == "child_copy_filter":
        child = obj.copy()
        child.filter_frequencies(FILTERS["lowpass"][0], force_real=True)
        child *= 3.0
        child.shift(2 * dt)
    elif op == "child_sum_filter_buf":
        child = FunctionSignal(np.array(obj.times), FUNCS["late"]) + obj
        child.filter_frequencies(FILTERS["delay2"][0], force_real=True)
        child.set_buffers(leading=3 * dt)
        child2 = 2.0 * obj
        child2.set_buffers(leading=5 * dt, force=True)
    else:
        raise ValueError(op)
    return obj, mod


def _obs_sig(obj):
    # the values of a fresh copy are part of the observation: a copy has no cache, so it exposes the definition itself
    return (np.array(obj.times, dtype=float).copy(), np.array(obj.values, dtype=float).copy(), obj.value_type.value,
            np.array(obj.copy().values, dtype=float))


def _same(a, b, tol=0.0):
    if isinstance(a, (tuple, list)):
        return len(a) == len(b) and all(_same(x, y, tol) for x, y in zip(a, b))
    if isinstance(a, str) or isinstance(b, str):
        return isinstance(a, str) and isinstance(b, str) and a == b
    if isinstance(a, np.ndarray) or isinstance(b, np.ndarray):
        a = np.asarray(a, dtype=float)
        b = np.asarray(b, dtype=float)
        if a.shape != b.shape:
            return False
        if tol == 0.0:
            return bool(np.array_equal(a, b, equal_nan=True))
        return bool(np.all((np.abs(a - b) <= tol * np.maximum(1.0, np.maximum(np.abs(a), np.abs(b)))) |
                           (np.isnan(a) & np.isnan(b))))
    if isinstance(a, float) and isinstance(b, float):
        if a != a and b != b:
            return True
        return a == b if tol == 0.0 else abs(a - b) <= tol * max(1.0, abs(a), abs(b))
    return a == b


def _run_sig(kind, seq, mask):
    """returns list of observations after each op (only where read) + final, and the model trail"""
    obj, mod = _make_signal(kind)
    reads = []
    for k, op in enumerate(seq):
        if mask >> k & 1:
            reads.append((k, _obs_sig(obj)))
        obj, mod = _apply_sig(obj, mod, op)
    final = _obs_sig(obj)
    return reads, final, mod


def _signal_case(case):
    kind, depth, first = case["sig"], case["depth"], case.get("first")
    fails = []
    nontriv = []
    n = 0
    max_model_err = 0.0
    seqs = []
    for d in range(1, depth + 1):
        for seq in itertools.product(SIG_OPS, repeat=d):
            if first is not None and seq[0] != first:
                continue
            if kind == "plain_decimal" and any(("add_" in o) or ("child_sum" in o) or o.startswith("resample") for o in seq):
                continue        # (the added components / resampling are defined for the dyadic grids)
            seqs.append(seq)
    if case.get("seq"):
        seqs = [tuple(case["seq"])]
    if not seqs:
        return {"n": 0, "nontrivial": [], "fails": [], "sample": {"kind": kind, "sequence": [], "masks": "-"}}
    # baseline (no reads) of every prefix is needed: cache
    base_cache = {}

    def base(seq):
        if seq not in base_cache:
            try:
                _, final, mod = _run_sig(kind, seq, 0)
                base_cache[seq] = ("ok", final, mod)
            except Exception as e:
                if src.exception_origin(e) != "library":
                    raise
                base_cache[seq] = ("exc", type(e).__name__, src.short_tb(e))
        return base_cache[seq]

    for seq in seqs:
        b = base(seq)
        n += 1
        if b[0] == "exc":
            # a sequence the fresh object itself refuses: only consistency of refusal is checked below
            pass
        elif b[2] is not None and kind == "plain_decimal" and any(c[5] for c in b[2].comps):
            # decimal grid with filters: how many buffer samples a non-dyadic step yields is a matter of rounding, so only the
            # differential oracle applies
            pass
        elif b[2] is not None:
            # eager model on the no-read execution
            exp = b[2].values(FUNCS, FILTERS)
            got = b[1][1]
            err = float(np.max(np.abs(got - exp))) if len(exp) == len(got) else float("inf")
            scale = max(1.0, float(np.max(np.abs(exp)))) if len(exp) else 1.0
            max_model_err = max(max_model_err, err / scale)
            if not (list(b[1][0]) == b[2].times and err <= 1e-11 * scale):
                fails.append(_fs("eager-model", kind, seq, 0,
                                 "values %s != eager evaluation %s (times %s)" % (got.tolist(), exp.tolist(), b[2].times)))
        masks = [case["mask"]] if case.get("mask") is not None else list(range(1, 2 ** len(seq)))
        for mask in masks:
            n += 1
            try:
                reads, final, _ = _run_sig(kind, seq, mask)
            except Exception as e:
                if src.exception_origin(e) != "library":
                    raise
                if b[0] == "exc" and b[1] == type(e).__name__:
                    continue
                fails.append(_fs("exception", kind, seq, mask, "with reads: %s; without reads: %s"
                                 % (src.short_tb(e), "no exception" if b[0] == "ok" else b[2])))
                continue
            if b[0] == "exc":
                fails.append(_fs("exception", kind, seq, mask, "without reads the sequence raises %s, with reads it does not" % b[2]))
                continue
            nontriv.append("%s|%s|%d" % (kind, ",".join(seq), mask))
            if not _same(final, b[1], 1e-12):
                fails.append(_fs("stale", kind, seq, mask,
                                 "final values after reads %s differ from the fresh object's %s"
                                 % (final[1].tolist(), b[1][1].tolist())))
                continue
            for k, obs in reads:
                pb = base(seq[:k]) if k else None
                if k == 0:
                    continue
                if pb[0] == "ok" and not _same(obs, pb[1], 1e-12):
                    fails.append(_fs("stale", kind, seq[:k], mask & (2 ** k - 1),
                                     "values read after %s differ from the fresh object's" % (seq[:k],)))
                    break
    return {"n": n, "nontrivial": nontriv, "fails": fails, "stats": {"max_model_err": max_model_err},
            "sample": {"kind": kind, "sequence": list(seqs[len(seqs) // 2]), "masks": "all non-zero"}}


def _fs(check, kind, seq, mask, what):
    return {"check": check, "what": "%s: ops %s read-mask %s: %s" % (kind, list(seq), bin(mask), what),
            "tags": {"kind": kind, "group": check + ":" + ("signal" if kind in SIG_KINDS else "ray"), "last": seq[-1] if seq else None},
            "size": len(seq) * 10 + bin(mask).count("1"),
            "replay": {"family": "signal" if kind in SIG_KINDS else "ray", "sig": kind, "depth": len(seq), "seq": list(seq), "mask": mask,
                       "ray": kind}}


# ---- ray tracers and paths -----------------------------------------------------------------------
RAY_KINDS = ["spec_tracer", "basic_tracer", "uniform_tracer", "layered_tracer", "layered_grad_tracer", "spec_path", "basic_path",
             "uniform_path", "layered_path"]

P_A = (0.0, 0.0, -250.0)
P_B = (400.0, 100.0, -100.0)
P_C = (-150.0, 200.0, -50.0)
P_D = (30.0, -600.0, -700.0)


def _make_ray(kind):
    from pyrex import ray_tracing as rt
    from pyrex.ice_model import AntarcticIce, UniformIce, GreenlandIce
    if kind == "spec_tracer":
        return rt.SpecializedRayTracer(P_A, P_B, AntarcticIce())
    if kind == "basic_tracer":
        return rt.BasicRayTracer(P_A, P_B, AntarcticIce(), dz=2.0)
    if kind == "uniform_tracer":
        return rt.UniformRayTracer(P_A, P_B, UniformIce(1.6, valid_range=(-800, 0), index_above=1.0, index_below=1.9))
    if kind == "layered_tracer":
        from pyrex.custom.layered_ice import LayeredIce, LayeredRayTracer
        ice = LayeredIce([UniformIce(1.5, valid_range=(-200, 0), index_above=1.0),
                          UniformIce(1.7, valid_range=(-900, -200), index_below=None)])
        return LayeredRayTracer(P_A, P_B, ice)
    if kind == "layered_grad_tracer":
        from pyrex.custom.layered_ice import LayeredRayTracer
        return LayeredRayTracer(P_A, P_B, _split_ice("antarctic"))
    if kind == "spec_path":
        return rt.SpecializedRayTracer(P_A, P_B, AntarcticIce()).solutions[1]
    if kind == "basic_path":
        return rt.BasicRayTracer(P_A, P_B, AntarcticIce(), dz=2.0).solutions[0]
    if kind == "uniform_path":
        t = rt.UniformRayTracer(P_A, P_B, UniformIce(1.6, valid_range=(-800, 0), index_above=1.0, index_below=1.9))
        t.max_reflections = 1
        return t.solutions[1]
    if kind == "layered_path":
        return _layered_tracer().solutions[0]
    raise ValueError(kind)


def _split_ice(which):
    """a gradient-index medium split into two layers at -150 m (same boundary for both media)"""
    from pyrex.ice_model import AntarcticIce, GreenlandIce
    from pyrex.custom.layered_ice import LayeredIce
    cls = AntarcticIce if which == "antarctic" else GreenlandIce
    return LayeredIce([cls(valid_range=(-150, 0)), cls(valid_range=(-2850, -150), index_above=None)])


def _layered_tracer(a=P_A, b=P_B):
    from pyrex.ice_model import UniformIce
    from pyrex.custom.layered_ice import LayeredIce, LayeredRayTracer
    ice = LayeredIce([UniformIce(1.5, valid_range=(-200, 0), index_above=1.0),
                      UniformIce(1.7, valid_range=(-900, -200), index_below=None)])
    t = LayeredRayTracer(a, b, ice)
    t.max_reflections = 1
    return t


def _ray_ops(kind):
    ops = ["from=C", "to=D", "from=B,to=A", "to+=dx"]
    if kind.endswith("tracer"):
        if kind in ("spec_tracer", "basic_tracer"):
            ops += ["ice=greenland", "dz=0.5"]
        if kind in ("uniform_tracer", "layered_tracer"):
            ops += ["max_reflections=1", "max_reflections=2"]
        if kind == "uniform_tracer":
            ops += ["ice=uniform2"]
        if kind == "layered_grad_tracer":
            ops = ["from=C", "to=D", "ice=greenland_split", "ice=antarctic_split"]
    elif kind == "layered_path":
        ops = ["from=C", "to=D", "to+=dx", "paths=other", "paths=elsewhere"]
    else:
        ops += ["theta0*0.9", "direct=flip"]
        if kind in ("spec_path", "basic_path"):
            ops += ["dz=0.5", "ice=greenland"]
    return ops


def _apply_ray(obj, op):
    from pyrex.ice_model import GreenlandIce, UniformIce
    if op == "from=C":
        obj.from_point = np.array(P_C)
    elif op == "to=D":
        obj.to_point = np.array(P_D)
    elif op == "from=B,to=A":
        obj.from_point = np.array(P_B)
        obj.to_point = np.array(P_A)
    elif op == "to+=dx":
        obj.to_point += np.array([37.0, -11.0, -3.0])      # in-place change, same array object assigned back
    elif op == "ice=greenland":
        obj.ice = GreenlandIce()
    elif op == "ice=greenland_split":
        obj.ice = _split_ice("greenland")
    elif op == "ice=antarctic_split":
        obj.ice = _split_ice("antarctic")
    elif op == "ice=uniform2":
        obj.ice = UniformIce(1.4, valid_range=(-900, 0), index_above=1.0, index_below=1.2)
    elif op == "dz=0.5":
        obj.dz = 0.5
    elif op.startswith("max_reflections="):
        obj.max_reflections = int(op.split("=")[1])
    elif op == "theta0*0.9":
        obj.theta0 = obj.theta0 * 0.9
    elif op == "direct=flip":
        obj.direct = not obj.direct
    elif op == "paths=other":
        obj.paths = _layered_tracer().solutions[1].paths
    elif op == "paths=elsewhere":
        obj.paths = _layered_tracer(P_C, P_D).solutions[0].paths
    else:
        raise ValueError(op)


def _obs_path(p):
    out = []
    for name in ("tof", "path_length", "emitted_direction", "received_direction", "n0", "rho", "phi"):
        if not hasattr(type(p), name):
            continue
        try:
            v = getattr(p, name)
            out.append(np.array(v, dtype=float).copy())
        except Exception as e:
            if src.exception_origin(e) != "library":
                raise
            out.append("exc:" + type(e).__name__)
    try:
        out.append(np.array(p.attenuation(np.array([1e8, 5e8])), dtype=float))
    except Exception as e:
        if src.exception_origin(e) != "library":
            raise
        out.append("exc:" + type(e).__name__)
    return tuple(out)


def _obs_ray(kind, obj):
    if kind.endswith("path"):
        return _obs_path(obj)
    try:
        ex = bool(obj.exists)
        sols = obj.solutions
    except Exception as e:
        if src.exception_origin(e) != "library":
            raise
        return ("exc:" + type(e).__name__,)
    return (ex, len(sols)) + tuple(_obs_path(s) for s in sols)


def _run_ray(kind, seq, mask):
    obj = _make_ray(kind)
    reads = []
    for k, op in enumerate(seq):
        if mask >> k & 1:
            reads.append((k, _obs_ray(kind, obj)))
        _apply_ray(obj, op)
    return reads, _obs_ray(kind, obj), obj


def _parent_tracer(kind, obj):
    """A newly constructed tracer of the matching class with the path's own defining attributes: what a path is built from."""
    from pyrex import ray_tracing as rt
    a = np.array(obj.from_point, dtype=float).copy()
    b = np.array(obj.to_point, dtype=float).copy()
    if kind == "spec_path":
        return rt.SpecializedRayTracer(a, b, obj.ice, dz=obj.dz)
    if kind == "basic_path":
        return rt.BasicRayTracer(a, b, obj.ice, dz=obj.dz)
    if kind == "uniform_path":
        return rt.UniformRayTracer(a, b, obj.ice)
    from pyrex.custom.layered_ice import LayeredRayTracer
    return LayeredRayTracer(a, b, obj.ice)


def _fresh_ray(kind, obj):
    """A newly constructed object with the same defining attributes as `obj` (the property's reference)."""
    cls = type(obj)
    if kind.endswith("tracer"):
        if hasattr(obj, "dz"):
            new = cls(np.array(obj.from_point, dtype=float).copy(), np.array(obj.to_point, dtype=float).copy(),
                      obj.ice, dz=obj.dz)
        else:
            new = cls(np.array(obj.from_point, dtype=float).copy(), np.array(obj.to_point, dtype=float).copy(), obj.ice)
        if "max_reflections" in vars(obj):
            new.max_reflections = obj.max_reflections
        return new
    if kind == "layered_path":
        return cls(_parent_tracer(kind, obj), obj.paths)
    if kind == "uniform_path":
        new = cls(_parent_tracer(kind, obj), obj.theta0, obj._reflections)
    else:
        new = cls(_parent_tracer(kind, obj), obj.theta0, obj.direct)
    if bool(new.direct) != bool(obj.direct):
        new.direct = obj.direct          # assigned before anything has been read from `new`
    return new


def _ray_case(case):
    kind, depth = case["ray"], case["depth"]
    ops = _ray_ops(kind)
    fails = []
    nontriv = []
    n = 0
    seqs = [s for d in range(1, depth + 1) for s in itertools.product(ops, repeat=d)]
    if case.get("seq"):
        seqs = [tuple(case["seq"])]
    cache = {}

    def base(seq):
        if seq not in cache:
            cache[seq] = _run_ray(kind, seq, 0)[1]
        return cache[seq]

    for seq in seqs:
        b = base(seq)
        n += 1
        masks = [case["mask"]] if case.get("mask") is not None else list(range(1, 2 ** len(seq)))
        for mask in masks:
            n += 1
            reads, final, obj = _run_ray(kind, seq, mask)
            nontriv.append("%s|%s|%d" % (kind, ",".join(seq), mask))
            if mask == masks[-1]:
                n += 1
                fresh = _obs_ray(kind, _fresh_ray(kind, obj))
                if not _same(final, fresh, 1e-12):
                    fails.append(_fs("fresh", kind, seq, mask,
                                     "derived quantities differ from those of a newly constructed object with the same "
                                     "defining attributes: %s vs %s" % (_brief(final), _brief(fresh))))
            if not _same(final, b, 1e-12):
                fails.append(_fs("stale", kind, seq, mask,
                                 "derived quantities after reads differ from a fresh object's: %s vs %s"
                                 % (_brief(final), _brief(b))))
    return {"n": n, "nontrivial": nontriv, "fails": fails,
            "sample": {"kind": kind, "sequence": list(seqs[len(seqs) // 2]), "masks": "all non-zero"}}


def _brief(o):
    s = repr(o)
    return s[:300]


def cases(tier, seed):
    out = []
    for kind in SIG_KINDS:
        if tier == "quick":
            d = 2
        else:
            d = 4 if kind == "plain_early" else 3
        for first in SIG_OPS:
            out.append({"family": "signal", "sig": kind, "depth": d, "first": first})
    for kind in RAY_KINDS:
        out.append({"family": "ray", "ray": kind, "depth": 2 if tier == "quick" else 3})
    return out


def evaluate(case):
    if case["family"] == "signal":
        return _signal_case(case)
    return _ray_case(case)
