"""C07 -- Askaryan pulses obey their scaling laws and fail gracefully.

Deviation-bounded lattice: around a base point every coordinate is swept fully on its own (d=1, quick) and every
pair of coordinates as a full product (d=2, thorough).  Dyadic time grids make the scaling relations exact.
"""
import itertools
import math

import numpy as np

from ..engine import src

PID = "C07"
LEVEL = "exploration"
RULE = ("models {ARZ, AVZ, ZHS} x deviation-bounded lattice (d=1 quick, d=2 thorough) over energy x (em,had) fractions x viewing angle "
        "(+-(theta_c + ladder), 0, pi/2, pi) x distance x vertex depth x N x dt x grid offset x shower time; at every point the relations "
        "1/R, +-angle, joint shift, whole-sample shift, finiteness, zero energy; plus angle ladders (cone maximum, monotone fall-off) and "
        "EM on-cone energy proportionality; distinct_nontrivial = distinct configurations whose pulse is not identically zero")
ASSUMPTIONS = ["AVZ with odd N extrapolates its last sample; that sample is excluded from the whole-sample-shift comparison",
               "the monotone-amplitude claim is checked on the declared angle ladder with dt <= 2^-34 s and E >= 1e9 GeV (DESIGN C07 S)",
               "whole-sample shifts are compared on the overlapping samples"]
CHUNK = 2

LADDER = [0.0, 0.5, 1.0, 2.0, 5.0, 10.0, 20.0, 40.0]
COORDS = {
    "E": [1e9, 1e5, 1e7, 1e11],
    "frac": [(0.3, 0.7), (1.0, 0.0), (0.0, 1.0), (0.0, 0.0)],
    "angle": [("c", 1.0)] + [("c", a) for a in LADDER if a != 1.0] + [("c", -a) for a in LADDER if a] +
             [("n", 0.0), ("n", 1.0), ("n", -2.0), ("n", 20.0), ("abs", 0.0), ("abs", math.pi / 2), ("abs", math.pi)],
    "R": [100.0, 1.0, 1024.0, 0.25],
    "depth": [-1000.0, -10.0, -200.0, -2800.0],
    "N": [256, 257, 1024],
    "dt": [2.0 ** -34, 2.0 ** -36],
    "goff": [0, 4096, -777],
    "t0": [40, 0, 97],
}
NAMES = list(COORDS)
MODELS = ["ARZ", "AVZ", "ZHS"]


def cases(tier, seed):
    d = 1 if tier == "quick" else 2
    out = []
    for model in MODELS:
        seen = set()
        combos = [()]
        for k in range(1, d + 1):
            combos += list(itertools.combinations(NAMES, k))
        for combo in combos:
            ranges = [range(1, len(COORDS[c])) for c in combo]
            for idx in itertools.product(*ranges):
                cfg = {c: 0 for c in NAMES}
                cfg.update(dict(zip(combo, idx)))
                key = tuple(cfg[c] for c in NAMES)
                if key in seen:
                    continue
                seen.add(key)
                out.append({"kind": "point", "model": model, "cfg": cfg})
        if d < 2:
            # long window x stretched (far off-cone) pulse: the combination in which a shower time tens of ns before the first
            # sample still leaves signal in the window (two deviations; the thorough tier has all of them)
            for ai in [i for i, a in enumerate(COORDS["angle"]) if a in (("c", 20.0), ("c", -20.0), ("c", 10.0))]:
                cfg = {c: 0 for c in NAMES}
                cfg.update(angle=ai, N=COORDS["N"].index(1024))
                out.append({"kind": "point", "model": model, "cfg": cfg})
        for e in (2, 0, 3):     # 1e7, 1e9, 1e11
            for fr in (0, 1, 2):
                for dep in (0, 1) if tier == "quick" else (0, 1, 2, 3):
                    out.append({"kind": "ladder", "model": model, "E": e, "frac": fr, "depth": dep})
        for dep in (0, 1, 3):
            out.append({"kind": "energy", "model": model, "depth": dep})
        out.append({"kind": "ice_history", "model": model})
        if model == "ARZ":
            out.append({"kind": "ice_history", "model": "ARVZ"})        # the older public name of the same model
    return out


def _particle(energy, em, had, depth):
    from pyrex.particle import Particle, Interaction
    p = Particle(Particle.Type.electron_neutrino, vertex=(0, 0, depth), direction=(0, 0, -1), energy=energy,
                 interaction_model=Interaction)
    p.interaction.em_frac = em
    p.interaction.had_frac = had
    return p


def _cls(model):
    from pyrex import askaryan
    return {"ARZ": askaryan.ARZAskaryanSignal, "AVZ": askaryan.AVZAskaryanSignal, "ZHS": askaryan.ZHSAskaryanSignal,
            "ARVZ": getattr(askaryan, "ARVZAskaryanSignal", askaryan.ARZAskaryanSignal)}[model]


_ICE = []


def _ice():
    if not _ICE:
        from pyrex.ice_model import AntarcticIce
        _ICE.append(AntarcticIce())
    return _ICE[0]


def _theta(angle, depth):
    """("c", a): theta_c + a degrees (a < 0: inside the cone); ("n", a): the mirrored negative angle -(theta_c + a);
    ("abs", x): x radians"""
    n = _ice().index(depth)
    tc = math.acos(1 / n)
    if angle[0] == "c":
        return tc + math.radians(angle[1])
    if angle[0] == "n":
        return -(tc + math.radians(angle[1]))
    return angle[1]


def _pulse(model, E, frac, theta, R, depth, N, dt, goff, t0):
    """returns ('ok', values) or ('exc', text)"""
    times = (np.arange(N) + goff) * dt
    p = _particle(E, frac[0], frac[1], depth)
    try:
        s = _cls(model)(times, p, theta, viewing_distance=R, ice_model=_ice(), t0=(t0 + goff) * dt)
        v = np.array(s.values, dtype=float)
        if s.value_type.name != "field":
            return ("exc", "value_type is %s, not field" % s.value_type.name)
    except Exception as e:
        if src.exception_origin(e) != "library":
            raise
        return ("exc", src.short_tb(e))
    return ("ok", v)


def _vals(cfg):
    return {c: COORDS[c][cfg[c]] for c in NAMES}


def _point(case):
    model, cfg = case["model"], case["cfg"]
    v = _vals(cfg)
    theta = _theta(v["angle"], v["depth"])
    args = dict(model=model, E=v["E"], frac=v["frac"], theta=theta, R=v["R"], depth=v["depth"], N=v["N"], dt=v["dt"],
                goff=v["goff"], t0=v["t0"])
    fails = []
    n = 0
    desc = "%s E=%g (em,had)=%s angle=%s(%.6f rad) R=%g depth=%g N=%d dt=2^%d grid offset=%d t0=%d samples" % (
        model, v["E"], v["frac"], v["angle"], theta, v["R"], v["depth"], v["N"], round(math.log2(v["dt"])), v["goff"], v["t0"])
    tags = {"model": model, "zero_energy": v["frac"] == (0.0, 0.0), "negative_angle": theta < 0}

    def fail(check, what):
        t = dict(tags)
        t["group"] = "%s|%s" % (check, model)
        fails.append({"check": check, "what": "%s: %s" % (desc, what), "tags": t})

    def run(**over):
        nonlocal n
        n += 1
        a = dict(args)
        a.update(over)
        return _pulse(**a)

    base = run()
    if base[0] == "exc":
        fail("exception", base[1])
        return {"n": n, "nontrivial": [], "fails": fails}
    v0 = base[1]
    if v0.shape != (v["N"],):
        fail("length", "values have shape %r" % (v0.shape,))
        return {"n": n, "nontrivial": [], "fails": fails}
    if not np.all(np.isfinite(v0)):
        fail("finite", "%d non-finite samples" % int(np.sum(~np.isfinite(v0))))
        return {"n": n, "nontrivial": [], "fails": fails}
    if v["frac"] == (0.0, 0.0) and np.any(v0 != 0):
        fail("zero-energy", "zero shower energy gives a non-zero field (max %g)" % np.max(np.abs(v0)))
    peak = float(np.max(np.abs(v0)))
    # floor: 1e-12 of the on-cone amplitude scale (~1e-8 E/R), so that an essentially vanishing pulse (e.g. theta = pi) is not
    # compared at the level of its own rounding noise
    tol = 1e-10 * peak + 1e-20 * v["E"] / v["R"] + 1e-300

    def cmp(check, res, expect, what):
        if res[0] == "exc":
            fail(check, "%s raised %s" % (what, res[1]))
        elif res[1].shape != expect.shape or not np.all(np.abs(res[1] - expect) <= tol):
            bad = int(np.argmax(np.abs(res[1] - expect))) if res[1].shape == expect.shape else -1
            fail(check, "%s: differs by %.3g (peak %.3g) at sample %d" % (what, float(np.max(np.abs(res[1] - expect))) if bad >= 0 else float("nan"), peak, bad))

    # 1/R
    for R2 in COORDS["R"]:
        if R2 != v["R"]:
            r = run(R=R2)
            if r[0] == "ok":
                r = ("ok", r[1] * (R2 / v["R"]))
            cmp("inverse-distance", r, v0, "field at R=%g times %g" % (R2, R2 / v["R"]))
    # angle sign
    if theta != 0:
        cmp("angle-sign", run(theta=-theta), v0, "field at the negated viewing angle")
    # joint shift of grid and shower time
    for s in (1024, 2 ** 24):
        cmp("joint-shift", run(goff=v["goff"] + s), v0, "grid and t0 shifted together by %d samples" % s)
    # whole-sample shift of the shower time only
    for k in (5, 64, v["N"] // 2, -(v["N"] // 2), -3 * v["N"] // 4, v["N"]):
        # the frequency-domain models return an all-zero trace by construction once the shower time is more than one window
        # length away from the window centre; the relation is checked while both shower times stay inside that range
        if not (-v["N"] // 2 < v["t0"] + k < 3 * v["N"] // 2):
            continue
        r = run(t0=v["t0"] + k)
        if r[0] == "exc":
            fail("sample-shift", "t0 %+d samples raised %s" % (k, r[1]))
        else:
            got, want = (r[1][k:], v0[:-k]) if k > 0 else (r[1][:k], v0[-k:])
            if model == "AVZ" and v["N"] % 2:
                # odd lengths: the model computes N-1 samples and extrapolates the last one linearly (documented)
                got, want = got[:-1], want[:-1]
            # the pulse content that leaves through the end of the window is dropped; compare the overlap
            # ARZ convolves with a vector potential tabulated on a finite window (+-10 ns around the trace): shifting by a large
            # part of the window changes which part of its tail is included (measured 3e-6 of the peak at half a window near the cone, 7e-4 for a view 40 degrees off the cone)
            big = model == "ARZ" and abs(k) > 64
            if not np.all(np.abs(got - want) <= max(tol, 1e-10 * float(np.max(np.abs(r[1]))), (5e-3 * peak) if big else 0.0)):
                bad = int(np.argmax(np.abs(got - want)))
                fail("sample-shift", "t0 moved by %d samples: values are not the old ones moved by %d samples (diff %.3g at %d, peak %.3g)"
                     % (k, k, float(np.max(np.abs(got - want))), bad, peak))
    # a pulse whose shower time lies a quarter window before the first / after the last sample has left the window: what remains
    # is its tail, not a copy of the pulse that re-enters at the other end
    far = int(math.ceil(6e-9 / v["dt"]))       # 6 ns: many pulse widths for a view one degree off the cone
    if peak > 0 and v["t0"] == 40 and cfg["angle"] == 0 and far < v["N"] // 2:
        for t_out in (-far, v["N"] + far):
            r = run(t0=t_out)
            if r[0] == "ok" and np.all(np.isfinite(r[1])):
                if float(np.max(np.abs(r[1]))) > 0.3 * peak:
                    fail("leaves-window", "shower time %d samples (%.1f ns) outside the window: the trace still contains %.3g of the in-window peak %.3g"
                         % (t_out if t_out < 0 else t_out - v["N"], far * v["dt"] * 1e9, float(np.max(np.abs(r[1]))), peak))
            elif r[0] == "exc":
                fail("leaves-window", "shower time %d samples raised %s" % (t_out, r[1]))
    return {"n": n, "nontrivial": ["%s|%s" % (model, sorted(cfg.items()))] if peak > 0 else [], "fails": fails,
            "stats": {"pulses": n}, "sample": {"model": model, "config": {k_: str(x) for k_, x in v.items()}}}


def _ladder(case):
    model = case["model"]
    E, frac, depth = COORDS["E"][case["E"]], COORDS["frac"][case["frac"]], COORDS["depth"][case["depth"]]
    fails = []
    n = 0
    peaks = {}
    for sign in (1, -1):
        for a in LADDER:
            theta = _theta(("c", sign * a), depth)      # sign=+1: outside the cone, -1: inside
            for dt in COORDS["dt"]:
                r = _pulse(model, E, frac, theta, 100.0, depth, 1024, dt, 0, 300)
                n += 1
                if r[0] == "exc":
                    fails.append({"check": "exception", "what": "%s ladder angle %g deg: %s" % (model, sign * a, r[1]),
                                  "tags": {"model": model, "group": "exception|" + model}})
                    continue
                peaks[(sign, a, dt)] = float(np.max(np.abs(r[1])))
    strict = E >= 1e9
    for sign in (1, -1):
        for dt in COORDS["dt"]:
            seq = [peaks.get((sign, a, dt)) for a in LADDER]
            if any(p is None for p in seq):
                continue
            for (a1, p1), (a2, p2) in zip(zip(LADDER[:-1], seq[:-1]), zip(LADDER[1:], seq[1:])):
                if strict and not p2 <= p1 * (1 + 1e-9):
                    fails.append({"check": "cone-monotone",
                                  "what": "%s E=%g frac=%s depth=%g dt=2^%d side %+d: peak grows from %.4g at %g deg to %.4g at %g deg off-cone"
                                          % (model, E, frac, depth, round(math.log2(dt)), sign, p1, a1, p2, a2),
                                  "tags": {"model": model, "group": "cone-monotone|" + model}})
            if not seq[0] >= max(seq) * (1 - 1e-9):
                fails.append({"check": "cone-maximum", "what": "%s E=%g frac=%s depth=%g: on-cone peak %.4g is not the maximum %.4g"
                                                               % (model, E, frac, depth, seq[0], max(seq)),
                              "tags": {"model": model, "group": "cone-maximum|" + model}})
    return {"n": n, "nontrivial": ["%s|ladder|%g|%s|%g|%s" % (model, E, frac, depth, k) for k in peaks if peaks[k] > 0], "fails": fails,
            "sample": {"model": model, "ladder_deg": LADDER, "E": E}}


def _energy(case):
    model, depth = case["model"], COORDS["depth"][case["depth"]]
    fails = []
    n = 0
    ratios = []
    theta = _theta(("c", 0.0), depth)
    for E in (1e5, 1e7, 1e9, 1e11):
        r = _pulse(model, E, (1.0, 0.0), theta, 100.0, depth, 1024, 2.0 ** -34, 0, 300)
        n += 1
        if r[0] == "exc":
            fails.append({"check": "exception", "what": "%s on-cone EM E=%g: %s" % (model, E, r[1]), "tags": {"model": model, "group": "exception|" + model}})
            continue
        ratios.append((E, float(np.max(np.abs(r[1]))) / E))
    if ratios:
        ref = ratios[0][1]
        for E, q in ratios:
            if not abs(q - ref) <= 1e-12 * ref:
                fails.append({"check": "energy-proportional", "what": "%s on-cone EM pulse: peak/E = %r at E=%g but %r at E=%g"
                                                                      % (model, q, E, ref, ratios[0][0]),
                              "tags": {"model": model, "group": "energy-proportional|" + model}})
    return {"n": n, "nontrivial": ["%s|energy|%g|%g" % (model, depth, E) for E, q in ratios if q > 0], "fails": fails,
            "sample": {"model": model, "on_cone_peak_over_E": ratios}}


def _ice_history(case):
    """The Cherenkov cone belongs to the ice model the signal is built with: pulses for the SAME vertex depth are built with one
    ice model after another (history over objects in one process) and each must peak on its own cone."""
    from pyrex.ice_model import AntarcticIce, GreenlandIce, UniformIce
    model = case["model"]
    depth = -333.0
    ices = [("antarctic", AntarcticIce()), ("uniform1.5", UniformIce(1.5, valid_range=(-3000, 0))), ("greenland", GreenlandIce()),
            ("antarctic-again", AntarcticIce()), ("uniform1.3", UniformIce(1.3, valid_range=(-3000, 0)))]
    offs = [0.0, 2.0, -2.0, 5.0, -5.0, 10.0, -10.0]
    fails, nontriv = [], []
    n = 0
    times = np.arange(1024) * 2.0 ** -34
    for name, ice in ices:
        tc = math.acos(1 / float(ice.index(depth)))
        peaks = []
        for a in offs:
            n += 1
            p = _particle(1e9, 0.7, 0.3, depth)
            try:
                v = np.array(_cls(model)(times, p, tc + math.radians(a), viewing_distance=100.0, ice_model=ice, t0=300 * 2.0 ** -34).values,
                             dtype=float)
            except Exception as e:
                if src.exception_origin(e) != "library":
                    raise
                fails.append({"check": "exception", "what": "%s in %s ice, %g deg off its cone: %s" % (model, name, a, src.short_tb(e)),
                              "tags": {"model": model, "group": "exception|" + model}})
                peaks = None
                break
            peaks.append(float(np.max(np.abs(v))))
        if not peaks:
            continue
        nontriv.append("%s|ice|%s" % (model, name))
        if not peaks[0] >= max(peaks) * (1 - 1e-9):
            fails.append({"check": "cone-maximum-ice", "what": "%s built with %s ice (index %.4f at the vertex, after pulses for the same depth "
                                                               "in other ice models): peak amplitudes %s at offsets %s deg from ITS Cherenkov angle -- "
                                                               "the on-cone one is not the largest" % (model, name, float(ice.index(depth)),
                                                                                                       ["%.3g" % x for x in peaks], offs),
                          "tags": {"model": model, "group": "cone-maximum-ice|" + model, "ice": name}})
    return {"n": n, "nontrivial": nontriv, "fails": fails, "sample": {"model": model, "ices": [x for x, _ in ices], "depth": depth}}


def evaluate(case):
    if case["kind"] == "ice_history":
        return _ice_history(case)
    if case["kind"] == "point":
        return _point(case)
    if case["kind"] == "ladder":
        return _ladder(case)
    return _energy(case)
