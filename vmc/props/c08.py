"""C08 -- antenna response: linear, rotation-covariant, field divided by the antenna factor.

Orbit graph: the 24 proper rotations of the cube (exact in floating point) + two generic rotations act on
(antenna axes, arrival direction, polarization); every member of every orbit is evaluated with the real
apply_response / receive and compared with an oracle written in rotation-invariant form (dot products only),
so covariance is checked edge by edge and against the closed form.
"""
import itertools
import math

import numpy as np

from ..engine import rng, src
from ..oracles import dft

PID = "C08"
LEVEL = "exploration"
RULE = ("antenna kind {direction/polarization dependent Antenna subclass, DipoleAntenna, AntennaSystem of each} x orientation "
        "(rotations of two base axis pairs: 8 quick / 48+2 generic thorough) x 26 arrival directions of {-1,0,1}^3 x 26 polarization "
        "vectors; plus signal lattice (3 basis signals x 4 value types x force_real) at fixed geometries, linearity pairs, receive of "
        "(s,p) pairs; distinct_nontrivial = distinct (kind, orientation, direction, polarization) with non-zero expected response")
ASSUMPTIONS = ["test antenna gain pattern is regular at theta=0 (the azimuth is ill-posed there)",
               "filter reference = longhand DFT (oracles/dft.py)"]

DT = 2.0 ** -30
N = 16
VECS = [v for v in itertools.product((-1, 0, 1), repeat=3) if any(v)]


def _cube_rotations():
    rots = []
    for perm in itertools.permutations(range(3)):
        for signs in itertools.product((1, -1), repeat=3):
            m = np.zeros((3, 3))
            for i in range(3):
                m[i, perm[i]] = signs[i]
            if round(np.linalg.det(m)) == 1:
                rots.append(m)
    return rots


def _generic_rotations():
    def rot(axis, ang):
        axis = np.asarray(axis, float) / np.linalg.norm(axis)
        K = np.array([[0, -axis[2], axis[1]], [axis[2], 0, -axis[0]], [-axis[1], axis[0], 0]])
        return np.eye(3) + math.sin(ang) * K + (1 - math.cos(ang)) * (K @ K)
    return [rot((1, 2, 3), 0.7), rot((-2, 1, 0.5), 2.1)]


ROTS = _cube_rotations()
BASES = [((0, 0, 1), (1, 0, 0)), ((1, 1, 1), (1, -1, 0))]


def _orientations(tier):
    out = []
    seen = set()
    for zb, xb in BASES:
        for r in ROTS:
            z = tuple((r @ np.array(zb, float)).tolist())
            x = tuple((r @ np.array(xb, float)).tolist())
            if (z, x) not in seen:
                seen.add((z, x))
                out.append((z, x, False))
    if tier == "quick":
        out = out[0:48:7] + [out[25]]
    # an upright antenna (z axis exactly vertical) turned about the vertical: by a quarter turn, a half turn and a generic angle
    for x in ((0.0, 1.0, 0.0), (-1.0, 0.0, 0.0), (0.6, 0.8, 0.0)):
        if ((0.0, 0.0, 1.0), x) not in [(o[0], o[1]) for o in out]:
            out.append(((0.0, 0.0, 1.0), x, True))
    g = _generic_rotations()
    for r in (g if tier != "quick" else g[:1]):
        z = tuple((r @ np.array(BASES[0][0], float)).tolist())
        x = tuple((r @ np.array(BASES[0][1], float)).tolist())
        out.append((z, x, True))
    return out


def cases(tier, seed):
    out = []
    for kind in ("gant", "dipole", "sys_gant", "sys_dipole"):
        for z, x, generic in _orientations(tier):
            out.append({"ant": kind, "z": list(z), "x": list(x), "generic": generic})
        out.append({"ant": kind, "signals": True})
        if kind == "gant":
            out.append({"ant": "gant_pos", "signals": True})
        # one antenna object walked through the whole orbit with set_orientation (state graph: orientation history)
        out.append({"ant": kind, "walk": True, "tier": tier})
    return out


def _resp_ref(f):
    fc = 1 / (8 * DT)
    return 1 / (1 + 1j * f / fc)


def _resp_pos(f):
    return (0.5 + 0.25j) / (1 + 1j * f * 8 * DT) if f > 0 else 0.75


def _make(kind, z, x):
    from pyrex.antenna import Antenna, DipoleAntenna
    from pyrex.detector import AntennaSystem

    class GAnt(Antenna):
        def __init__(self, position, z_axis, x_axis):
            super().__init__(position=position, z_axis=z_axis, x_axis=x_axis, antenna_factor=2.5, efficiency=0.5, noisy=False)

        def directional_gain(self, theta, phi):
            return 1 + 0.5 * np.cos(theta) + 0.25 * np.sin(theta) * np.cos(phi) + 0.125 * np.sin(theta) * np.sin(phi)

        def polarization_gain(self, polarization):
            return 0.5 * np.dot(polarization, self.x_axis) + np.dot(polarization, self.z_axis)

        def frequency_response(self, frequencies):
            fc = 1 / (8 * DT)
            return 1 / (1 + 1j * np.asarray(frequencies) / fc)

    class GAntPos(GAnt):
        # a response specified for positive frequencies only, as tabulated antenna models are: not conjugate-symmetric, so
        # force_real matters
        def frequency_response(self, frequencies):
            f = np.asarray(frequencies, dtype=float)
            return np.where(f > 0, (0.5 + 0.25j) / (1 + 1j * f * 8 * DT), 0.75)

    pos = (3.0, -4.0, -100.0)
    base = kind.replace("sys_", "")
    if base == "gant_pos":
        mk = lambda: GAntPos(pos, z, x)
    elif base == "gant":
        mk = lambda: GAnt(pos, z, x)
    else:
        def mk():
            with rng.owned(rng.WeylSource()):
                return DipoleAntenna("dip", pos, center_frequency=1 / (8 * DT), bandwidth=1 / (16 * DT), temperature=300,
                                     resistance=50, orientation=z, effective_height=0.4, noisy=False)
    ant = mk()
    if kind.startswith("sys_"):
        s = AntennaSystem(ant)
        return s, ant
    return ant, ant


def _expected_gains(kind, ant, z, x, d, p):
    zh = np.array(z, float) / np.linalg.norm(z)
    xh = np.array(x, float) / np.linalg.norm(x)
    dh = np.array(d, float) / np.linalg.norm(d)
    ph = np.array(p, float) / np.linalg.norm(p)
    if "gant" in kind:
        dg = 1 + 0.5 * float(zh @ (-dh)) + 0.25 * float(xh @ (-dh)) + 0.125 * float(np.cross(zh, xh) @ (-dh))
        pg = 0.5 * float(ph @ xh) + float(ph @ zh)
        return dg, pg, 0.5, 2.5
    dg = float(np.linalg.norm(np.cross(zh, dh)))
    pg = float(zh @ ph)
    return dg, pg, 1.0, 1 / 0.4


def _signals():
    from pyrex.signals import Signal
    t = np.arange(N) * DT + 5 * DT
    base = []
    for k in (1, N // 2, N - 2):
        v = np.zeros(N)
        v[k] = 1.0
        base.append(v)
    base.append(np.array([math.sin(0.7 * i) + 0.5 * math.cos(2.1 * i) for i in range(N)]))
    return t, base


def _geometry_case(case):
    from pyrex.signals import Signal
    kind, z, x = case["ant"], case["z"], case["x"]
    obj, ant = _make(kind, z, x)
    t, base = _signals()
    vals = base[3]
    fails = []
    nontriv = []
    n = 0
    maxerr = 0.0
    if "dipole" in kind:
        resp = lambda f: complex(ant.frequency_response(np.array([f]))[0])     # Butterworth: trusted, tested as response in C05 terms
    else:
        resp = _resp_ref
    ref, _ = dft.filtered_reference(vals, DT, resp, False)
    sig = Signal(t, vals, Signal.Type.field)
    only = case.get("only")
    for d in VECS:
        for p in VECS:
            if only and [list(d), list(p)] != only:
                continue
            n += 1
            out = obj.apply_response(sig, direction=np.array(d, float), polarization=np.array(p, float))
            dg, pg, eff, factor = _expected_gains(kind, ant, z, x, d, p)
            exp = ref * dg * pg * eff / factor
            err = float(np.max(np.abs(np.asarray(out.values) - exp)))
            maxerr = max(maxerr, err)
            tol = 1e-12 if not case["generic"] else 1e-11
            if not err <= tol:
                fails.append({"check": "response-value",
                              "what": "%s z=%s x=%s direction=%s polarization=%s: response %s..., expected filtered*gains %s... (dgain %.6g pgain %.6g)"
                                      % (kind, z, x, d, p, np.asarray(out.values)[:3].tolist(), exp[:3].tolist(), dg, pg),
                              "tags": {"ant": kind, "group": "response-value"}, "replay": dict(case, only=[list(d), list(p)])})
            if out.value_type != Signal.Type.voltage or not np.array_equal(out.times, t):
                fails.append({"check": "response-type", "what": "%s: output type %s / grid changed" % (kind, out.value_type),
                              "tags": {"ant": kind, "group": "response-type"}})
            if abs(dg * pg) > 1e-9:
                nontriv.append("%s|%s|%s|%s|%s" % (kind, z, x, d, p))
    return {"n": n, "nontrivial": nontriv, "fails": fails, "stats": {"max_abs_err": maxerr},
            "sample": {"ant": kind, "z": z, "x": x, "directions": 26, "polarizations": 26}}


def _signal_case(case):
    from pyrex.signals import Signal
    kind = case["ant"]
    fails = []
    nontriv = []
    n = 0
    T = Signal.Type
    t, base = _signals()
    geoms = [((0, 0, 1), (1, 0, 0), (1, 0, -1), (0, 1, 1)), ((1, 1, 1), (1, -1, 0), (0, -1, 1), (1, 0, 0))]
    for z, x, d, p in geoms:
        obj, ant = _make(kind, z, x)
        resp = (lambda f: complex(ant.frequency_response(np.array([f]))[0])) if "dipole" in kind else (
            _resp_pos if "gant_pos" in kind else _resp_ref)
        dg, pg, eff, factor = _expected_gains(kind, ant, z, x, d, p)
        outs = {}
        for fr in (False, True):
            for vt in (T.voltage, T.field, T.undefined, T.power):
                for bi, vals in enumerate(base):
                    n += 1
                    sig = Signal(t, vals, vt)
                    before = len(ant.signals)
                    try:
                        out = obj.apply_response(sig, direction=d, polarization=p, force_real=fr)
                    except ValueError:
                        if vt in (T.voltage, T.field):
                            fails.append(_sf("rejects-valid", kind, "apply_response rejected a %s signal" % vt.name))
                        # receive must also refuse and store nothing
                        try:
                            obj.receive(sig, direction=d, polarization=p)
                            fails.append(_sf("receive-accepts-invalid", kind, "receive accepted a %s signal" % vt.name))
                        except ValueError:
                            pass
                        if len(ant.signals) != before:
                            fails.append(_sf("receive-stores-invalid", kind, "a rejected %s signal was stored" % vt.name))
                            ant.clear()
                        continue
                    if vt not in (T.voltage, T.field):
                        fails.append(_sf("accepts-invalid", kind, "apply_response accepted a %s signal" % vt.name))
                        continue
                    ref, _ = dft.filtered_reference(vals, DT, resp, fr)
                    exp = ref * dg * pg * eff / (factor if vt == T.field else 1.0)
                    if not np.max(np.abs(np.asarray(out.values) - exp)) <= 1e-12:
                        fails.append(_sf("response-value", kind, "%s signal #%d force_real=%s: response %s..., expected %s..."
                                         % (vt.name, bi, fr, np.asarray(out.values)[:3].tolist(), exp[:3].tolist())))
                    if np.any(sig.values != vals) or sig.value_type != vt:
                        fails.append(_sf("input-mutated", kind, "apply_response modified its input signal"))
                    outs[(fr, vt, bi)] = np.asarray(out.values)
                    nontriv.append("%s|sig|%s|%s|%d|%s" % (kind, z, vt.name, bi, fr))
                # homogeneity far away from unit scale (weak fields of 1e-9 V/m are ordinary inputs)
                if vt in (T.voltage, T.field):
                    for a_ in (1e-9, 1e-15, 1e9):
                        n += 1
                        out = obj.apply_response(Signal(t, a_ * base[3], vt), direction=d, polarization=p, force_real=fr)
                        if not np.max(np.abs(np.asarray(out.values) - a_ * outs[(fr, vt, 3)])) <= 1e-12 * a_ * max(1e-300, float(np.max(np.abs(outs[(fr, vt, 3)])))):
                            fails.append(_sf("homogeneity", kind, "response(%g * s) != %g * response(s) for a %s signal (max |response| %.3g)"
                                             % (a_, a_, vt.name, float(np.max(np.abs(np.asarray(out.values)))))))
                # linearity in the signal
                if vt in (T.voltage, T.field):
                    comb = Signal(t, 2.0 * base[0] - 0.5 * base[3], vt)
                    n += 1
                    out = obj.apply_response(comb, direction=d, polarization=p, force_real=fr)
                    e = 2.0 * outs[(fr, vt, 0)] - 0.5 * outs[(fr, vt, 3)]
                    if not np.max(np.abs(np.asarray(out.values) - e)) <= 1e-12:
                        fails.append(_sf("linearity", kind, "response(2a-0.5b) != 2 response(a) - 0.5 response(b) for %s" % vt.name))
        # the same antenna object on other grids: same length with another step, another length, and back -- the response
        # belongs to the frequencies of the grid at hand, whatever was evaluated before
        for mul, nn in ((2.0, N), (0.5, N), (1.0, 2 * N), (4.0, N // 2), (1.0, N)):
            tt = np.arange(nn) * DT * mul + 5 * DT
            vv = np.array([math.sin(0.7 * i) + 0.5 * math.cos(2.1 * i) for i in range(nn)])
            for fr in (False, True):
                n += 1
                out = obj.apply_response(Signal(tt, vv, T.voltage), direction=d, polarization=p, force_real=fr)
                ref, _ = dft.filtered_reference(vv, DT * mul, resp, fr, use_fft=2 * nn > 160)
                exp = ref * dg * pg * eff
                if np.shape(out.values) != (nn,) or not np.max(np.abs(np.asarray(out.values) - exp)) <= 1e-11:
                    fails.append(_sf("response-regrid", kind, "after other grids, a %d-sample signal with step %g x dt (force_real=%s): response "
                                     "%s..., its own filter gives %s..." % (nn, mul, fr, np.asarray(out.values)[:3].tolist(), exp[:3].tolist())))
                else:
                    nontriv.append("%s|regrid|%s|%g|%d|%s" % (kind, z, mul, nn, fr))
        # a function-backed input handed to the antenna more than once (the same object, as a kernel would hand one pulse to
        # several antennas): every response is that of the pristine signal, and the signal itself stays as it was
        from pyrex.signals import FunctionSignal
        vv = base[3]

        def sampled(tq, vv=vv):
            idx = np.rint((np.asarray(tq, dtype=float) - t[0]) / DT).astype(int)
            ok = (idx >= 0) & (idx < N)
            return np.where(ok, vv[np.clip(idx, 0, N - 1)], 0.0)
        fsig = FunctionSignal(t, sampled, T.voltage)
        ref, _ = dft.filtered_reference(vv, DT, resp, False)
        exp = ref * dg * pg * eff
        got = []
        for rep_ in range(3):
            n += 1
            out = obj.apply_response(fsig, direction=d, polarization=p)
            got.append(out)
        for rep_, out in enumerate(got):        # evaluated only after all three calls
            if not np.max(np.abs(np.asarray(out.values) - exp)) <= 1e-11:
                fails.append(_sf("function-input-reused", kind, "response #%d to the same FunctionSignal object: %s..., expected %s..."
                                 % (rep_, np.asarray(out.values)[:3].tolist(), exp[:3].tolist())))
        if not np.array_equal(np.asarray(fsig.values), vv) or fsig.value_type != T.voltage:
            fails.append(_sf("input-mutated", kind, "apply_response modified the FunctionSignal it was given"))
        # a polarization without a direction (and a direction without a polarization): the missing one contributes a gain of 1;
        # positional arguments mean the same as the keywords (signal, direction, polarization) on antennas and systems alike
        s0 = Signal(t, base[3], T.field)
        ref0, _ = dft.filtered_reference(base[3], DT, resp, False)
        both = np.asarray(obj.apply_response(s0, direction=d, polarization=p).values)
        n += 3
        only_p = np.asarray(obj.apply_response(s0, polarization=p).values)
        only_d = np.asarray(obj.apply_response(s0, direction=d).values)
        if not np.max(np.abs(only_p - ref0 * pg * eff / factor)) <= 1e-12:
            fails.append(_sf("polarization-without-direction", kind, "apply_response(signal, polarization=p): %s..., filtered * polarization "
                             "gain * efficiency / factor = %s..." % (only_p[:3].tolist(), (ref0 * pg * eff / factor)[:3].tolist())))
        if not np.max(np.abs(only_d - ref0 * dg * eff / factor)) <= 1e-12:
            fails.append(_sf("direction-without-polarization", kind, "apply_response(signal, direction=d): %s..., filtered * directional "
                             "gain * efficiency / factor = %s..." % (only_d[:3].tolist(), (ref0 * dg * eff / factor)[:3].tolist())))
        pos = np.asarray(obj.apply_response(s0, d, p).values)
        if not np.array_equal(pos, both):
            fails.append(_sf("positional-arguments", kind, "apply_response(signal, d, p) differs from apply_response(signal, direction=d, "
                             "polarization=p)"))
        # receive of ONE signal (not a list) stores exactly what apply_response returns, for either force_real
        for fr in (False, True):
            ant.clear()
            n += 1
            s0 = Signal(t, base[3], T.field)
            obj.receive(s0, direction=d, polarization=p, force_real=fr)
            e = np.asarray(obj.apply_response(s0, direction=d, polarization=p, force_real=fr).values)
            if len(ant.signals) != 1 or not np.max(np.abs(np.asarray(ant.signals[0].values) - e)) <= 1e-13:
                fails.append(_sf("receive-single", kind, "receive(signal, force_real=%s) stored %s..., apply_response gives %s..."
                                 % (fr, np.asarray(ant.signals[0].values)[:3].tolist() if ant.signals else None, e[:3].tolist())))
        ant.clear()
        # the frequency response is a function of the frequencies it is handed and leaves that array alone
        fgrid = np.array(dft.freqs(2 * N, DT), dtype=np.float64)
        fkeep = fgrid.copy()
        r1 = np.array(ant.frequency_response(fgrid))
        r2 = np.array(ant.frequency_response(fgrid))
        n += 1
        if not np.array_equal(fgrid, fkeep) or not np.array_equal(r1, r2, equal_nan=True):
            fails.append(_sf("response-argument-modified", kind, "frequency_response changed the frequency array it was given "
                             "(or answers differently the second time)"))
        # two stages: the (lazy) response to a FunctionSignal handed on to the antenna again -- the response squared
        out2 = obj.apply_response(obj.apply_response(fsig, direction=d, polarization=p), direction=d, polarization=p)
        ref2, _ = dft.filtered_reference(vv, DT, lambda f_: resp(f_) ** 2, False)
        n += 1
        if not np.max(np.abs(np.asarray(out2.values) - ref2 * (dg * pg * eff) ** 2)) <= 1e-11:
            fails.append(_sf("function-input-two-stage", kind, "two passes of a FunctionSignal through the antenna: %s..., expected %s..."
                             % (np.asarray(out2.values)[:3].tolist(), (ref2 * (dg * pg * eff) ** 2)[:3].tolist())))
        # receive of an (s,p) pair == sum of the two responses, exactly one signal stored
        ant.clear()
        s1 = Signal(t, base[0], T.field)
        s2 = Signal(t, base[3], T.field)
        p1, p2 = (0, 1, 1), (1, 0, -1)
        n += 1
        obj.receive([s1, s2], direction=d, polarization=[p1, p2])
        if len(ant.signals) != 1:
            fails.append(_sf("receive-count", kind, "receive of a pair stored %d signals" % len(ant.signals)))
        else:
            e = (np.asarray(obj.apply_response(s1, direction=d, polarization=p1).values) +
                 np.asarray(obj.apply_response(s2, direction=d, polarization=p2).values))
            if not np.max(np.abs(np.asarray(ant.signals[0].values) - e)) <= 1e-13:
                fails.append(_sf("receive-sum", kind, "receive of an (s,p) pair is not the sum of the two responses"))
        try:
            obj.receive([s1, s2], direction=d, polarization=[p1])
            fails.append(_sf("receive-mismatch", kind, "receive accepted 2 signals with 1 polarization"))
        except ValueError:
            pass
        ant.clear()
    return {"n": n, "nontrivial": nontriv, "fails": fails, "sample": {"ant": kind, "value_types": 4, "basis_signals": len(base)}}


def _sf(check, kind, what):
    return {"check": check, "what": "%s: %s" % (kind, what), "tags": {"ant": kind, "group": check}}


def _walk_case(case):
    """The same antenna object is re-oriented (public set_orientation) through every orientation of the orbit, processing
    directional signals at each stop; every response must equal that of the closed form for the *current* orientation."""
    from pyrex.signals import Signal
    kind = case["ant"]
    orients = _orientations(case["tier"])
    z0, x0, _ = orients[0]
    obj, ant = _make(kind, z0, x0)
    t, base = _signals()
    vals = base[3]
    resp = (lambda f: complex(ant.frequency_response(np.array([f]))[0])) if "dipole" in kind else _resp_ref
    ref, _ = dft.filtered_reference(vals, DT, resp, False)
    sig = Signal(t, vals, Signal.Type.field)
    fails = []
    nontriv = []
    n = 0
    probes = [((1, 0, -1), (0, 1, 1)), ((-1, 1, 1), (1, 1, 0)), ((0, -1, 0), (1, 0, 1))]
    for step_no, (z, x, generic) in enumerate(orients + orients[:2]):
        if step_no:
            obj.set_orientation(z_axis=z, x_axis=x)
        for d, p in probes:
            n += 1
            out = obj.apply_response(sig, direction=np.array(d, float), polarization=np.array(p, float))
            dg, pg, eff, factor = _expected_gains(kind, ant, z, x, d, p)
            exp = ref * dg * pg * eff / factor
            err = float(np.max(np.abs(np.asarray(out.values) - exp)))
            if not err <= (1e-12 if not generic else 1e-11):
                fails.append({"check": "reorientation",
                              "what": "%s after %d set_orientation calls (now z=%s x=%s), direction=%s polarization=%s: response %s..., "
                                      "expected for the current orientation %s..." % (kind, step_no, list(z), list(x), d, p,
                                                                                      np.asarray(out.values)[:3].tolist(), exp[:3].tolist()),
                              "tags": {"ant": kind, "group": "reorientation"}, "size": step_no})
                break
            if abs(dg * pg) > 1e-9:
                nontriv.append("%s|walk|%d|%s|%s" % (kind, step_no, d, p))
    return {"n": n, "nontrivial": nontriv, "fails": fails[:3], "sample": {"ant": kind, "orientations_walked": len(orients) + 2}}


def evaluate(case):
    if case.get("signals"):
        return _signal_case(case)
    if case.get("walk"):
        return _walk_case(case)
    return _geometry_case(case)
