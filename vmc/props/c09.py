"""C09 -- antenna / antenna-system hit bookkeeping is consistent under every history.

Explicit-state BFS with deepcopy snapshots over real Antenna / DipoleAntenna / AntennaSystem objects.
Reference model: the list of received (already responded) signals, the number of signals present when
each cached waveform was materialised, and a noise-generation counter.
"""
import copy

import numpy as np

from ..engine import graph, rng, src

PID = "C09"
LEVEL = "model_checking"
RULE = ("BFS to the tier's depth from the empty state of 8 object kinds (threshold Antenna, DipoleAntenna, AntennaSystem with x2 "
        "front end, AntennaSystem with a front end delaying by the lead-in time 3dt; each noiseless and noisy) over 24 actions: "
        "receive(small|large amplitude x windows A=[0,8) B=[4,12) C=[20,28) D=[2,6) L=[-3,37)), read all_waveforms / waveforms / is_hit, "
        "full_waveform and is_hit_during on windows incl. one with half the sampling step, make_noise on 2 windows, clear(), clear(reset_noise=True); "
        "distinct_nontrivial = distinct canonical states with >= 1 received signal")
ASSUMPTIONS = ["a cached waveform may contain the signals present when it was first read or all signals received so far (DESIGN C09 S)",
               "for the delay front end the two readings of 'each passed through the front end' differ on (t_end, t_end+dt]; those samples are not compared",
               "noise under an owned deterministic random stream"]
CHUNK = 1
DETERMINISM_CASES = 1

DT = 2.0 ** -30
# L is a long signal that strictly encloses every other window and every query window except "all"/"far"
WINDOWS = {"A": (0, 8), "B": (4, 12), "C": (20, 28), "D": (2, 6), "L": (-3, 37)}
# "cut" starts on the last sample of window A and ends on the first sample of window C (edge cases of the overlap test)
QUERY = {"all": (-4, 32), "cut": (7, 21), "far": (40, 48), "half": None}
KINDS = ["thr", "dipole", "sys_gain", "sys_delay", "sys_shift"]
# sys_shift joins late and with a smaller depth: its front end differs from sys_delay only in *how* the delay is expressed
SHALLOW = {"sys_shift": {"quick": (4, 2), "thorough": (5, 3)}}


def _grid(lo, hi):
    return np.arange(lo, hi) * DT


def _qgrid(name):
    if name == "half":
        return (np.arange(3, 15) + 0.5) * DT
    if name == "fine":
        return np.arange(0, 48) * DT / 2          # half the sampling step of the received signals; starts 3 dt after window L
    return _grid(*QUERY[name])


def _pulse(win, amp):
    lo, hi = WINDOWS[win]
    t = _grid(lo, hi)
    n = hi - lo
    v = np.zeros(n)
    v[n // 2 - 1] = amp
    v[n // 2] = -amp / 2
    v[1] = amp / 4
    v[0] = amp / 8          # non-zero on the first and last sample: window-edge contributions are observable
    v[-1] = -amp / 8
    return t, v


def _actions():
    # (window D: the sub-threshold variant is the *empty* signal -- what a kernel hands over for an off-cone or invalid ray)
    acts = [("receive", w, a) for w in WINDOWS for a in (("small", "large") if w != "D" else ("empty", "large"))]
    acts += [("read_all",), ("read_triggered",), ("read_is_hit",)]
    acts += [("full_waveform", q) for q in ("all", "cut", "far", "fine")]
    acts += [("is_hit_during", q) for q in ("all", "cut", "fine")]
    acts += [("make_noise", q) for q in ("cut", "half")]
    acts += [("clear",), ("clear_reset",)]
    return acts


ACTIONS = _actions()


def _build(kind, noisy):
    from pyrex.antenna import Antenna, DipoleAntenna
    from pyrex.detector import AntennaSystem
    from pyrex.signals import Signal

    class ThrAnt(Antenna):
        def __init__(self, position=(0, 0, -100)):
            super().__init__(position=position, noisy=noisy, freq_range=(1 / (16 * DT), 3 / (16 * DT)), noise_rms=0.125,
                             unique_noise_waveforms=3)

        def trigger(self, signal):
            return bool(np.max(np.abs(signal.values)) > 0.5)

    class GainSys(AntennaSystem):
        def __init__(self):
            super().__init__(ThrAnt)
            self.setup_antenna()

        def front_end(self, signal):
            return Signal(signal.times, 2.0 * signal.values, value_type=Signal.Type.voltage)

    class DelaySys(AntennaSystem):
        lead_in_time = 3 * DT

        def __init__(self):
            super().__init__(ThrAnt)
            self.setup_antenna()

        def front_end(self, signal):
            # a front end with memory: delays by lead_in_time (3*DT of *time*, whatever the sampling step of the grid)
            k = int(round(self.lead_in_time / (signal.times[1] - signal.times[0])))
            v = np.concatenate((np.zeros(k), signal.values[:-k])) if k else np.array(signal.values)
            return Signal(signal.times, v, value_type=Signal.Type.voltage)

    class ShiftSys(AntennaSystem):
        lead_in_time = 3 * DT

        def __init__(self):
            super().__init__(ThrAnt)
            self.setup_antenna()

        def front_end(self, signal):
            # the same delay written the other way round: the samples stay, their time stamps move (a cable delay);
            # the output is *not* on the grid it was given, the system has to bring it back onto the requested one
            return Signal(np.asarray(signal.times) + self.lead_in_time, np.array(signal.values), value_type=Signal.Type.voltage)

    if kind == "thr":
        return ThrAnt()
    if kind == "dipole":
        with rng.owned(rng.WeylSource()):
            return DipoleAntenna("d", (0, 0, -100), center_frequency=1 / (8 * DT), bandwidth=1 / (8 * DT), temperature=300,
                                 resistance=100, trigger_threshold=0.5 if not noisy else 0.5, noisy=noisy, unique_noise_waveforms=3)
    if kind == "sys_gain":
        return GainSys()
    if kind == "sys_delay":
        return DelaySys()
    if kind == "sys_shift":
        return ShiftSys()
    raise ValueError(kind)


class State:
    def __init__(self, kind, noisy):
        self.kind, self.noisy = kind, noisy
        self.obj = _build(kind, noisy)
        self.source = rng.WeylSource(0.371)
        self.rx = []            # model: [(window, amp, responded times, responded values)]
        self.mat = []           # number of signals present when cached waveform i was materialised
        self.trig = []          # number of trigger flags evaluated
        self.noise_gen = 0
        self.noise_first = None     # window of the first noise request of this generation
        self.noise_seen = {}        # generation-local: query name -> values
        self.prev_noise = {}        # previous generation
        self.note = []

    def ant(self):
        return self.obj.antenna if hasattr(self.obj, "antenna") else self.obj


def _interp_sum(st, times, upto=None, shift=0.0):
    tot = np.zeros(len(times))
    for (w, a, t, v) in st.rx[:upto]:
        tot += np.interp(np.asarray(times) - shift, t, v, left=0, right=0)
    return tot


def _expected_noiseless(st, times, upto=None):
    """returns (expected values, mask of comparable samples)"""
    times = np.asarray(times)
    mask = np.ones(len(times), dtype=bool)
    if st.kind == "sys_gain":
        return 2.0 * _interp_sum(st, times, upto), mask
    if st.kind == "sys_delay":
        for (w, a, t, v) in st.rx[:upto]:
            mask &= ~((times > t[-1]) & (times <= t[-1] + 3 * DT * (1 + 2.0 ** -20)))
        return _interp_sum(st, times, upto, shift=3 * DT), mask
    if st.kind == "sys_shift":
        # every sample of the summed antenna waveform re-appears 3*DT later, whatever the sampling step: no edge effects
        return _interp_sum(st, times, upto, shift=3 * DT), mask
    return _interp_sum(st, times, upto), mask


def _trigger_of(st, values):
    return bool(np.max(np.abs(values)) > 0.5) if len(values) else False


def _scribble(sig):
    """What a caller may do with a signal handed back by make_noise / full_waveform: change it in place.  The antenna's
    later answers are defined by its own history (receives, queries, clears) and must not move with it."""
    sig *= 3.0
    sig.values[:] = 7.0
    sig.times[:] = sig.times + 5 * DT


def step(st, a):
    st.note = []
    with rng.owned(st.source):
        try:
            return _step(st, a)
        except Exception as e:
            if src.exception_origin(e) != "library":
                raise
            st.note.append(("exception", "%s raised %s" % (a, src.short_tb(e))))
            return st


def _noise_window(st, name):
    if st.noisy and st.noise_first is None:
        st.noise_first = name


def _step(st, a):
    from pyrex.signals import Signal
    o = st.obj
    op = a[0]
    if op == "receive":
        t, v = _pulse(a[1], {"small": 0.25, "empty": 0.0}.get(a[2], 2.0))
        if a[2] == "empty":
            from pyrex.signals import EmptySignal
            o.receive(EmptySignal(t, Signal.Type.voltage))
        else:
            o.receive(Signal(t, v, Signal.Type.voltage))
        stored = st.ant().signals
        if len(stored) != len(st.rx) + 1:
            st.note.append(("signals-count", "%d signals stored after %d receives" % (len(stored), len(st.rx) + 1)))
            st.rx.append((a[1], a[2], np.array(t), np.array(v)))
        else:
            got = stored[-1]
            st.rx.append((a[1], a[2], np.array(got.times), np.array(got.values)))
    elif op in ("read_all", "read_triggered", "read_is_hit"):
        n = len(st.rx)
        if st.noisy and len(st.mat) < n:
            _noise_window(st, "rx:" + st.rx[len(st.mat)][0])
        if op == "read_all":
            _ = o.all_waveforms
        elif op == "read_triggered":
            _ = o.waveforms
        else:
            _ = o.is_hit
        st.mat += [n] * (n - len(st.mat))
    elif op == "full_waveform":
        _noise_window(st, "fw:" + a[1])
        q = _qgrid(a[1])
        w = o.full_waveform(q)
        noise = None
        if not np.array_equal(w.times, q):
            st.note.append(("full_waveform-grid", "full_waveform(%s) is not on the requested grid" % a[1]))
        elif st.noisy:
            noise = o.make_noise(q)
            exp, mask = _expected_noiseless(st, q)
            diff = np.asarray(w.values) - np.asarray(noise.values)
            if not np.all(np.abs(diff - exp)[mask] <= 1e-9):
                st.note.append(("full_waveform-noisy", "full_waveform(%s) - noise(%s) = %s, sum of signals %s"
                                % (a[1], a[1], diff.tolist(), exp.tolist())))
        else:
            exp, mask = _expected_noiseless(st, q)
            if not np.all(np.abs(np.asarray(w.values) - exp)[mask] <= 1e-12):
                st.note.append(("full_waveform-sum", "full_waveform(%s) = %s, sum of received signals interpolated = %s"
                                % (a[1], np.asarray(w.values).tolist(), exp.tolist())))
        _scribble(w)
        if noise is not None:
            _scribble(noise)
    elif op == "is_hit_during":
        _noise_window(st, "fw:" + a[1])
        q = _qgrid(a[1])
        got = bool(o.is_hit_during(q))
        if not st.noisy:
            exp, mask = _expected_noiseless(st, q)
            if mask.all() and got != _trigger_of(st, exp):
                st.note.append(("is_hit_during", "is_hit_during(%s) = %r, trigger of the summed waveform = %r" % (a[1], got, not got)))
    elif op == "make_noise":
        if not st.noisy:
            return None
        _noise_window(st, "mn:" + a[1])
        q = _qgrid(a[1])
        nz = o.make_noise(q)
        vals = np.array(nz.values)
        if not np.array_equal(nz.times, q):
            st.note.append(("noise-grid", "make_noise(%s) is not on the requested grid" % a[1]))
        if a[1] in st.noise_seen and not np.array_equal(st.noise_seen[a[1]], vals):
            st.note.append(("noise-changed", "make_noise(%s) returned different values without a reset: %s vs %s"
                            % (a[1], st.noise_seen[a[1]][:4].tolist(), vals[:4].tolist())))
        if a[1] in st.prev_noise and np.array_equal(st.prev_noise[a[1]], vals) and np.any(vals != 0):
            st.note.append(("noise-not-reset", "make_noise(%s) returned the previous realisation after clear(reset_noise=True)" % a[1]))
        st.noise_seen[a[1]] = vals
        _scribble(nz)
    elif op in ("clear", "clear_reset"):
        if op == "clear":
            o.clear()
        else:
            o.clear(reset_noise=True)
            if st.noisy:
                st.noise_gen += 1
                st.prev_noise = dict(st.noise_seen) if st.noise_seen else st.prev_noise
                st.noise_seen = {}
                st.noise_first = None
        st.rx, st.mat = [], []
    return st


def check(st, hist, a):
    fails = [{"check": c, "what": w} for c, w in st.note]
    if any(c == "exception" for c, _ in st.note):
        return fails
    o = st.obj
    ant = st.ant()
    n = len(st.rx)
    if len(ant.signals) != n:
        fails.append({"check": "signals-count", "what": "%d signals stored after %d receives" % (len(ant.signals), n)})
        return fails
    # private caches are inspected only for their length (no catch-up is triggered by the check itself)
    cache = o._all_waves
    if len(cache) != len(st.mat):
        fails.append({"check": "cache-count", "what": "%d cached waveforms, model expects %d" % (len(cache), len(st.mat))})
        return fails
    if a is not None and a[0] in ("read_all", "read_triggered", "read_is_hit"):
        with rng.owned(st.source):
            allw = o.all_waveforms
            trg = o.waveforms
            hit = o.is_hit
        if len(allw) != n:
            fails.append({"check": "waveform-count", "what": "%d waveforms for %d received signals" % (len(allw), n)})
            return fails
        flags = []
        for i, w in enumerate(allw):
            if not np.array_equal(w.times, st.rx[i][2]):
                fails.append({"check": "waveform-grid", "what": "waveform %d is not on the grid of signal %d" % (i, i)})
                continue
            if not st.noisy:
                e1, m1 = _expected_noiseless(st, st.rx[i][2], upto=st.mat[i])
                e2, m2 = _expected_noiseless(st, st.rx[i][2])
                v = np.asarray(w.values)
                ok1 = np.all(np.abs(v - e1)[m1] <= 1e-12)
                ok2 = np.all(np.abs(v - e2)[m2] <= 1e-12)
                if not (ok1 or ok2):
                    fails.append({"check": "waveform-sum", "what": "waveform %d = %s; sum of the %d signals present when first read = %s"
                                                                   % (i, v.tolist(), st.mat[i], e1.tolist())})
            flags.append(bool(o.trigger(w)))
        want = [w for w, f in zip(allw, flags) if f]
        if len(trg) != len(want) or any(x is not y for x, y in zip(trg, want)):
            fails.append({"check": "triggered-list", "what": "waveforms has %d entries, %d cached waveforms satisfy the trigger (flags %s)"
                                                             % (len(trg), len(want), flags)})
        if bool(hit) != (len(want) > 0):
            fails.append({"check": "is_hit", "what": "is_hit=%r with %d triggered waveforms" % (hit, len(want))})
    if a is not None and a[0] in ("clear", "clear_reset"):
        with rng.owned(st.source):
            if len(o.all_waveforms) or len(o.waveforms) or o.is_hit or len(ant.signals):
                fails.append({"check": "clear", "what": "not empty after clear"})
        if hasattr(o, "antenna") and (len(o._signals) or len(o._triggers)):
            fails.append({"check": "clear", "what": "system caches not empty after clear"})
    return fails


def _fingerprint(st):
    """Sizes of the implementation's incremental caches.  Under correct code they are a function of the model
    state; including them keeps the search from merging (and so never expanding) a state whose hidden caches
    have gone wrong."""
    out = []
    for o in (st.obj, st.ant()):
        for name in ("_all_waves", "_triggers", "_signals", "signals"):
            v = o.__dict__.get(name)
            out.append(len(v) if isinstance(v, list) else None)
        out.append(o.__dict__.get("_noise_master") is None if "_noise_master" in o.__dict__ else None)
    return tuple(out)


def canon(st):
    return (_fingerprint(st), tuple((w, a) for w, a, _, _ in st.rx), tuple(st.mat), st.noise_gen > 0, st.noise_first,
            tuple(sorted(st.noise_seen)), bool(st.prev_noise))


def cases(tier, seed):
    out = []
    for kind in KINDS:
        for noisy in (False, True):
            if tier == "quick":
                d = 3 if noisy else 5
            else:
                d = 5 if noisy else 6
            if kind in SHALLOW:
                d = SHALLOW[kind][tier][1 if noisy else 0]
            # sharded by the first action (each shard explores the sub-tree below it to depth d-1)
            for i in range(len(ACTIONS)):
                out.append({"obj": kind, "noisy": noisy, "depth": d, "first": i})
    return out


def evaluate(case):
    kind, noisy = case["obj"], case["noisy"]
    if "history" in case:
        st = State(kind, noisy)
        fails = check(st, (), None)
        done = []
        for act in case["history"]:
            act = tuple(act)
            st = step(st, act)
            done.append(act)
            if st is None:
                return {"n": 1, "nontrivial": [], "fails": [{"check": "replay", "what": "action not enabled"}]}
            fails = check(st, tuple(done), act)
            if fails:
                break
        return {"n": 1, "nontrivial": [], "fails": fails}
    prefix = ()
    depth = case["depth"]
    factory = lambda: State(kind, noisy)
    if "first" in case:
        first = ACTIONS[case["first"]]
        st0 = step(State(kind, noisy), first)
        if st0 is None:
            return {"n": 0, "nontrivial": [], "fails": [], "states": 0, "transitions": 0}
        f0 = check(st0, (("init",), first), first)
        if f0:
            return {"n": 1, "nontrivial": [], "states": 1, "transitions": 1,
                    "fails": [dict(f, what="%s %s, history [%s]: %s" % (kind, "noisy" if noisy else "noiseless", " ".join(map(str, first)), f["what"]),
                                   tags={"group": f["check"], "obj": kind, "noisy": noisy}, size=1,
                                   replay={"obj": kind, "noisy": noisy, "history": [list(first)]}) for f in f0]}
        prefix = (first,)
        depth -= 1
        factory = lambda: step(State(kind, noisy), first)
    res = graph.bfs([("%s/%s" % (kind, "noisy" if noisy else "noiseless"), factory)], ACTIONS, step, check,
                    canon, depth, clone=copy.deepcopy)
    res.transitions += len(prefix)
    fails = []
    for hist, f in res.failures:
        hist = (hist[0],) + prefix + tuple(hist[1:])
        f = dict(f)
        f["what"] = "%s %s, history %s: %s" % (kind, "noisy" if noisy else "noiseless", [" ".join(map(str, x)) for x in hist[1:]], f["what"])
        f["tags"] = {"group": f["check"], "obj": kind, "noisy": noisy}
        f["size"] = len(hist)
        f["replay"] = {"obj": kind, "noisy": noisy, "history": [list(x) for x in hist[1:]]}
        fails.append(f)
    return {"n": res.transitions, "nontrivial": ["%s|%s|%s|%d" % (kind, noisy, case.get("first"), i) for i in range(max(0, res.states - 1))],
            "fails": fails, "states": res.states, "transitions": res.transitions,
            "stats": {"max_depth": res.max_depth, "per_action": dict(res.per_action)},
            "sample": res.samples[0] if res.samples else None}
