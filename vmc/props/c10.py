"""C10 -- the event kernel delivers one time-aligned signal per ray solution, for every component combination.

Configuration lattice with a deviation bound (every coordinate alone and every pair, quick; triples thorough) around a
base configuration: ray tracer x ice, signal model, generator, off-cone cut, weight cut, attenuation interpolation, writer,
triggers, antenna set.  Oracle: recomputation of every delivered signal from the public pieces (fresh tracer, fresh pulse,
path.propagate, antenna.apply_response).
"""
import itertools
import os
import tempfile

import numpy as np

from ..engine import rng, src
from ..oracles import h5model as hm

PID = "C10"
LEVEL = "exploration"
RULE = ("coordinates: tracer x ice {Specialized x (Antarctic, Arasim, Greenland), Basic x Antarctic, Uniform x UniformIce, Layered x (U|U, A|A)}, "
        "signal model {ARZ, AVZ, ZHS}, generator {List 1 particle, List 3 particles incl. a below-threshold weight, List with a particle in the shadow zone ahead of one that is not, Cylindrical, Rectangular "
        "(owned randomness), FileGenerator}, offcone_max {None, 40, 0.5, 0}, weight_min {None, 0.1, (0.5,0.25), 0, exactly a particle's weight}, attenuation_interpolation {0.1, None}, "
        "writer {none, recording stub, real HDF5}, triggers {None, function, dict, dict whose global coincidence fails while a component fires}, antenna set {2, 1, 3 antennas incl. one in the air}, time grid of 96 / 97 samples; all "
        "configurations within deviation bound 2 (quick) / 3 (thorough) of the base; two consecutive events per configuration; "
        "distinct_nontrivial = distinct configurations in which at least one non-empty signal was delivered")
ASSUMPTIONS = ["the oracle recomputes each delivered signal with the same public building blocks (tracer, signal model, propagate, apply_response); "
               "their own correctness is C01-C08's subject",
               "random generators run under an owned deterministic random stream"]
CHUNK = 2

COORDS = {
    "tracer": ["spec_antarctic", "spec_arasim", "spec_greenland", "basic_antarctic", "uniform", "layered_uu", "layered_aa"],
    "signal": ["ARZ", "AVZ", "ZHS"],
    "gen": ["list1", "list3", "cyl", "box", "file", "list_shadow"],
    "offcone": [None, 40, 0.5, 0],
    # 0.2 * 0.3: exactly the weight of the second particle of "list3" (a particle whose weight EQUALS the threshold passes)
    "weight": [None, 0.1, (0.5, 0.25), 0, 0.2 * 0.3],
    "interp": [0.1, None],
    "writer": ["none", "stub", "hdf5"],
    "triggers": ["none", "func", "dict", "dict_veto"],
    "antennas": ["two", "one", "three_air"],
    "grid": [96, 97],          # number of samples of the configured time grid (even / odd)
}
NAMES = list(COORDS)
DT = 2.0 ** -31
TIMES = (np.arange(96) - 24) * DT


def cases(tier, seed):
    d = 2 if tier == "quick" else 3
    out = []
    seen = set()
    for k in range(0, d + 1):
        for combo in itertools.combinations(NAMES, k):
            for idx in itertools.product(*[range(1, len(COORDS[c])) for c in combo]):
                cfg = {c: 0 for c in NAMES}
                cfg.update(dict(zip(combo, idx)))
                key = tuple(cfg[c] for c in NAMES)
                if key in seen:
                    continue
                seen.add(key)
                out.append({"cfg": cfg})
    return out


def _components(name):
    from pyrex import ray_tracing as rt
    from pyrex.ice_model import AntarcticIce, ArasimIce, GreenlandIce, UniformIce
    if name == "spec_antarctic":
        return rt.SpecializedRayTracer, AntarcticIce()
    if name == "spec_arasim":
        return rt.SpecializedRayTracer, ArasimIce()
    if name == "spec_greenland":
        return rt.SpecializedRayTracer, GreenlandIce()
    if name == "basic_antarctic":
        return rt.BasicRayTracer, AntarcticIce()
    if name == "uniform":
        class UniformTracer2(rt.UniformRayTracer):
            max_reflections = 2          # five solutions per antenna
        return UniformTracer2, UniformIce(1.6, valid_range=(-900, 0), index_above=1.0, index_below=1.9)
    from pyrex.custom.layered_ice import LayeredIce, LayeredRayTracer
    if name == "layered_uu":
        return LayeredRayTracer, LayeredIce([UniformIce(1.5, valid_range=(-200, 0), index_above=1.0), UniformIce(1.7, valid_range=(-900, -200), index_below=None)])
    return LayeredRayTracer, LayeredIce([AntarcticIce(valid_range=(-100, 0)), AntarcticIce(valid_range=(-2850, -100), index_above=None)])


def _signal_model(name):
    from pyrex import askaryan
    return {"ARZ": askaryan.ARZAskaryanSignal, "AVZ": askaryan.AVZAskaryanSignal, "ZHS": askaryan.ZHSAskaryanSignal}[name]


def _antennas(name):
    from pyrex.antenna import Antenna

    class ThrAnt(Antenna):
        def trigger(self, signal):
            return bool(np.max(np.abs(signal.values)) > 1e-9)

        def frequency_response(self, frequencies):
            return 1 / (1 + 1j * np.asarray(frequencies) * 4 * DT)

    pos = {"two": [(0.0, 0.0, -100.0), (200.0, 30.0, -50.0)], "one": [(0.0, 0.0, -100.0)],
           "three_air": [(0.0, 0.0, -100.0), (200.0, 30.0, -50.0), (50.0, 50.0, 5.0)]}[name]
    return [ThrAnt(position=p, z_axis=(0, 0, 1), x_axis=(1, 0, 0), antenna_factor=2.0, noisy=False) for p in pos]


def _particle(i, weight=None):
    from pyrex.particle import Particle, Interaction
    p = Particle([12, -14, 16][i % 3], vertex=(120.0 - 40 * i, -60.0 + 25 * i, -300.0 - 50 * i), direction=(0.3 - 0.2 * i, 0.1 * i, -0.8 + 0.3 * i),
                 energy=1e9 * (i + 1), interaction_model=Interaction, interaction_type="cc")
    p.interaction.em_frac = 0.4
    p.interaction.had_frac = 0.5
    if weight is not None:
        p.survival_weight, p.interaction_weight = weight
    return p


def _generator(name, tmp, source):
    from pyrex import generation
    from pyrex.particle import Event, Interaction
    if name == "list1":
        return generation.ListGenerator([Event(_particle(0, (0.9, 0.8)))])
    if name == "list3":
        # third particle: in the firn (index 1.47 instead of 1.78 at depth), seen from the first antenna 11 degrees from its
        # direction of motion: 36 degrees inside its own Cherenkov cone (47 deg) but 45 degrees inside the deep-ice cone (56 deg),
        # i.e. on different sides of a 40 degree off-cone cut depending on whose Cherenkov angle is used
        from pyrex.ray_tracing import SpecializedRayTracer
        from pyrex.ice_model import AntarcticIce
        p2 = _particle(2, (0.7, 0.4))
        p2.vertex = np.array([150.0, 40.0, -25.0])
        e = np.asarray(SpecializedRayTracer(p2.vertex, (0.0, 0.0, -100.0), AntarcticIce()).solutions[0].emitted_direction, float)
        perp = np.cross(e, [0.0, 0.0, 1.0])
        perp = perp / np.linalg.norm(perp)
        p2.direction = np.cos(np.radians(11.0)) * e + np.sin(np.radians(11.0)) * perp
        return generation.ListGenerator([Event([_particle(0, (0.9, 0.8)), _particle(1, (0.2, 0.3)), p2]),
                                         Event(_particle(1, (0.6, 0.9)))])
    if name == "list_shadow":
        # first particle: shallow and 3 km away -- in gradient-index ice no ray reaches the antennas from there; the second
        # particle (another vertex) does reach them.  What an antenna gets from one particle says nothing about the next.
        far = _particle(1, (0.9, 0.9))
        far.vertex = np.array([3000.0, 0.0, -30.0])
        # (second event: a particle of weight exactly zero -- without a cut, or with weight_min = 0, it is processed like any other)
        return generation.ListGenerator([Event([far, _particle(0, (0.9, 0.8))]), Event([_particle(2, (0.0, 0.8)), far])])
    class M(Interaction):
        def choose_interaction(self):
            return self.Type.charged_current

        def choose_shower_fractions(self):
            return 0.3, 0.6

        @property
        def total_cross_section(self):
            return 1e-33

        @property
        def cross_section(self):
            return 1e-33
    if name == "cyl":
        return generation.CylindricalGenerator(250.0, 500.0, energy=1e9, interaction_model=M)
    if name == "box":
        return generation.RectangularGenerator(400.0, 300.0, 600.0, energy=lambda: 3e9, interaction_model=M)
    path = os.path.join(tmp, "gen.h5")
    if not os.path.exists(path):
        drv = hm.Driver(path, {"require_trigger": False}, 2)
        for spec in ({"np": 1, "trig": "T", "rays": (1, 1), "waves": (1, 1)}, {"np": 2, "trig": "F", "rays": (1, 0), "waves": (0, 1)}):
            drv.add(spec)
        drv.close()
    return generation.FileGenerator(path, slice_range=1, interaction_model=Interaction)


class StubWriter:
    def __init__(self):
        self.is_open = True
        self.has_detector = False
        self.calls = []
        self.meta = []

    def open(self):
        self.is_open = True

    def set_detector(self, det):
        self.has_detector = True
        self.det = det

    def create_analysis_metadataset(self, name, *a, **k):
        self.meta.append(name)

    def add_analysis_metadata(self, name, metadata, index=None):
        self.meta.append((name, dict(metadata)))

    def add(self, event, triggered=None, ray_paths=None, polarizations=None, events_thrown=1):
        self.calls.append({"event": event, "triggered": triggered, "ray_paths": [list(r) for r in ray_paths],
                           "polarizations": [[np.array(p) for p in ps] for ps in polarizations], "events_thrown": events_thrown})


def _trig_func(ants):
    return any(a.is_hit for a in ants)


def _trig_two(ants):
    return sum(1 for a in ants if a.is_hit) >= 2


def _trig_three(ants):
    return sum(1 for a in ants if a.is_hit) >= 3


def _trig_dict(name):
    # "dict_veto": a global coincidence that the base antenna set cannot reach while a component trigger fires
    return {"global": _trig_two if name == "dict" else _trig_three, "any": _trig_func}


def _passes(p, wmin):
    if wmin is None:
        wmin = 0
    if isinstance(wmin, (tuple, list)):
        return not ((p.survival_weight is not None and p.survival_weight < wmin[0]) or
                    (p.interaction_weight is not None and p.interaction_weight < wmin[1]))
    return not (p.weight < wmin)


def evaluate(case):
    TIMES = (np.arange(COORDS["grid"][case["cfg"].get("grid", 0)]) - 24) * DT
    from pyrex.kernel import EventKernel
    from pyrex.io import File
    from pyrex.signals import Signal
    cfg = {c: COORDS[c][case["cfg"][c]] for c in NAMES}
    desc = ", ".join("%s=%s" % (c, cfg[c]) for c in NAMES)
    fails = []
    nev = 0
    delivered = 0

    def fail(check, what, **tags):
        tags.update(group="%s|%s" % (check, cfg["tracer"].split("_")[0]), tracer=cfg["tracer"], writer=cfg["writer"])
        fails.append({"check": check, "what": "[%s] %s" % (desc, what), "tags": tags, "size": sum(case["cfg"].values())})

    tracer_cls, ice = _components(cfg["tracer"])
    sigmodel = _signal_model(cfg["signal"])
    with tempfile.TemporaryDirectory(prefix="c10-") as tmp:
        source = rng.WeylSource(0.314)
        ants = _antennas(cfg["antennas"])
        with rng.owned(source):
            gen = _generator(cfg["gen"], tmp, source)
        writer = None
        if cfg["writer"] == "stub":
            writer = StubWriter()
        elif cfg["writer"] == "hdf5":
            writer = File(os.path.join(tmp, "out.h5"), "w", write_waveforms=True, require_trigger=False,
                          write_triggers=cfg["triggers"] != "none")
            writer.open()
        triggers = {"none": None, "func": _trig_func, "dict": _trig_dict("dict"), "dict_veto": _trig_dict("dict_veto")}[cfg["triggers"]]
        try:
            kernel = EventKernel(generator=gen, antennas=ants, ice_model=ice, ray_tracer=tracer_cls, signal_model=sigmodel,
                                 signal_times=TIMES, event_writer=writer, triggers=triggers, offcone_max=cfg["offcone"],
                                 weight_min=cfg["weight"], attenuation_interpolation=cfg["interp"])
        except Exception as e:
            if src.exception_origin(e) != "library":
                raise
            fail("kernel-init", src.short_tb(e), exc=type(e).__name__)
            return {"n": 1, "nontrivial": [], "fails": fails}
        offmax = np.radians(180) if cfg["offcone"] is None else np.radians(cfg["offcone"])
        for round_ in range(2):
            nev += 1
            if round_ == 1 and cfg["antennas"] == "one" and cfg["writer"] != "hdf5":
                # the antenna collection handed to the kernel grows between two events (a detector being extended): the second
                # event serves the antennas that are there when it is produced
                ants.append(_antennas("two")[1])
            before = [len(a.signals) for a in ants]
            count_before = gen.count
            try:
                with rng.owned(source):
                    ret = kernel.event()
            except Exception as e:
                if src.exception_origin(e) != "library":
                    raise
                fail("event-exception", "event #%d raised %s" % (round_, src.short_tb(e)), exc=type(e).__name__)
                break
            if triggers is None:
                event, trig = ret, None
            else:
                if not (isinstance(ret, tuple) and len(ret) == 2):
                    fail("return-value", "event() returned %r with triggers given" % (type(ret),))
                    break
                event, trig = ret
            # the event is the generator's
            if cfg["gen"].startswith("list"):
                want_ev = gen.events[(gen._index - 1) % len(gen.events)]
                if event is not want_ev:
                    fail("event-identity", "event #%d is not the generator's event" % round_)
            parts = [p for p in event if _passes(p, cfg["weight"])]
            # ---- recomputation from the public pieces --------------------------------------------------------------------
            exp_paths = [[] for _ in ants]
            exp_pols = [[] for _ in ants]
            for i, ant in enumerate(ants):
                expected = []
                for p in parts:
                    rt_ = tracer_cls(p.vertex, ant.position, ice_model=ice)
                    if not rt_.exists:
                        continue
                    theta_c = np.arccos(1 / ice.index(p.vertex[2]))
                    for path in rt_.solutions:
                        e_dir = np.asarray(path.emitted_direction, float)
                        nu = np.vdot(e_dir, p.direction) * e_dir - p.direction
                        nu = nu / np.linalg.norm(nu)
                        psi = np.arccos(np.vdot(p.direction, e_dir))
                        exp_paths[i].append(path)
                        exp_pols[i].append(nu)
                        tof = float(path.tof)
                        if abs(psi - theta_c) > offmax:
                            expected.append(("empty", TIMES + tof, None))
                            continue
                        pulse = sigmodel(times=TIMES, particle=p, viewing_angle=psi, viewing_distance=path.path_length, ice_model=ice)
                        try:
                            pulses, pols = path.propagate(signal=pulse, polarization=nu, attenuation_interpolation=cfg["interp"])
                        except TypeError:
                            pulses, pols = path.propagate(signal=pulse, polarization=nu)
                        tot = None
                        for sg, pl in zip(pulses, pols):
                            r = ant.apply_response(sg, direction=path.received_direction, polarization=pl)
                            tot = r if tot is None else tot + r
                        expected.append(("pulse", TIMES + tof, np.asarray(tot.values, float)))
                got = ant.signals[before[i]:]
                if len(got) != len(expected):
                    fail("signal-count", "event #%d antenna %d: %d signals delivered, %d ray solutions for %d particle(s) passing the cuts"
                         % (round_, i, len(got), len(expected), len(parts)), antenna=i)
                    continue
                for k, (sg, (kind, times, vals)) in enumerate(zip(got, expected)):
                    if not np.array_equal(np.asarray(sg.times, float), times):
                        fail("signal-times", "event #%d antenna %d signal %d: not on signal_times + tof (first sample %r, expected %r)"
                             % (round_, i, k, float(sg.times[0]), float(times[0])), antenna=i)
                        continue
                    v = np.asarray(sg.values, float)
                    if kind == "empty":
                        if np.any(v != 0):
                            fail("offcone-empty", "event #%d antenna %d signal %d: off-cone view but the delivered signal is not empty" % (round_, i, k))
                    else:
                        scale = max(float(np.max(np.abs(vals))), 1e-300)
                        if not np.max(np.abs(v - vals)) <= 1e-9 * scale:
                            fail("signal-values", "event #%d antenna %d signal %d: delivered signal differs from apply_response(propagate(pulse)) by %.3g (scale %.3g)"
                                 % (round_, i, k, float(np.max(np.abs(v - vals))), scale), antenna=i)
                        if np.any(v != 0):
                            delivered += 1
            # ---- triggers ------------------------------------------------------------------------------------------------
            if triggers is not None:
                want = _trig_dict(cfg["triggers"])["global"](ants) if cfg["triggers"].startswith("dict") else _trig_func(ants)
                if bool(trig) != bool(want):
                    fail("trigger-result", "event #%d: returned trigger %r, the supplied function gives %r" % (round_, trig, want))
            # ---- what the writer was told ------------------------------------------------------------------------------------
            if cfg["writer"] == "stub":
                if len(writer.calls) != round_ + 1:
                    fail("writer-calls", "writer.add called %d times after %d events" % (len(writer.calls), round_ + 1))
                else:
                    call = writer.calls[-1]
                    if call["event"] is not event:
                        fail("writer-event", "the writer received a different event object")
                    if call["events_thrown"] != gen.count - count_before:
                        fail("writer-thrown", "events_thrown=%r, generator count advanced by %r" % (call["events_thrown"], gen.count - count_before))
                    if triggers is None and call["triggered"] is not None:
                        fail("writer-trigger", "triggered=%r passed without trigger functions" % (call["triggered"],))
                    if cfg["triggers"].startswith("dict") and (
                            not isinstance(call["triggered"], dict) or
                            call["triggered"] != {k: f(ants) for k, f in _trig_dict(cfg["triggers"]).items()}):
                        fail("writer-trigger", "trigger dict passed to the writer is %r" % (call["triggered"],))
                    if len(call["ray_paths"]) != len(ants) or len(call["polarizations"]) != len(ants):
                        fail("writer-alignment", "the writer was handed ray paths for %d and polarizations for %d antennas; the kernel has %d"
                             % (len(call["ray_paths"]), len(call["polarizations"]), len(ants)))
                    for i in range(min(len(ants), len(call["ray_paths"]), len(call["polarizations"]))):
                        n_sig = len(ants[i].signals) - before[i]
                        rp, pl = call["ray_paths"][i], call["polarizations"][i]
                        if not (len(rp) == len(pl) == n_sig):
                            fail("writer-alignment", "antenna %d: %d ray paths and %d polarizations reported for %d delivered signals" % (i, len(rp), len(pl), n_sig))
                            continue
                        for k in range(n_sig):
                            if abs(float(rp[k].path_length) - float(exp_paths[i][k].path_length)) > 1e-9 * float(exp_paths[i][k].path_length) or \
                                    np.max(np.abs(pl[k] - exp_pols[i][k])) > 1e-9:
                                fail("writer-alignment", "antenna %d signal %d: reported ray path / polarization do not belong to that signal" % (i, k))
                                break
            for a in ants:
                a.clear()
        if cfg["writer"] == "hdf5":
            try:
                writer.close()
                with File(os.path.join(tmp, "out.h5"), "r") as f:
                    n_read = len(f)
                    for ev in f:
                        ev.get_particle_info()
                        try:
                            ev.get_rays_info()
                        except ValueError as e_:
                            if "not saved" not in str(e_):      # no event of the file had any ray (all below the weight cut)
                                raise
                if n_read != 2 and not fails:
                    fail("hdf5-count", "%d events in the file after 2 kernel events" % n_read)
            except Exception as e:
                if src.exception_origin(e) != "library":
                    raise
                fail("hdf5-exception", src.short_tb(e), exc=type(e).__name__)
    key = "|".join("%s" % case["cfg"][c] for c in NAMES)
    return {"n": nev, "nontrivial": [key] if delivered else [], "fails": fails, "stats": {"signals_delivered": delivered},
            "sample": {"configuration": cfg}}
