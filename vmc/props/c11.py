"""C11 -- HDF5 write-read round trip returns each event's own data for every configuration.

History tree rebuilt by replay into a fresh file per leaf: configuration (write_* flags x require_trigger, deviation
bound from the defaults) x detector size x every sequence of event / fault specs up to the tier's depth (every prefix
is its own leaf).  Oracle: the reference log of accepted adds (oracles/h5model.py), read back with a sequential pass.
"""
import itertools
import os
import tempfile

from ..engine import src
from ..oracles import h5model as hm

PID = "C11"
LEVEL = "model_checking"
RULE = ("configurations = all valid write_* flag combinations within deviation bound d of the defaults (d=2 quick, all 24 thorough) x "
        "require_trigger in {True, False, each single key, all keys} x detector sizes; histories = all sequences over the event "
        "alphabet (particles x trigger spec x rays/waveforms per antenna) and the fault alphabet (argument-validation rejections) of "
        "length <= D (D=2 quick, 3 thorough on a reduced alphabet); every history is written to a fresh file and read back; states = "
        "distinct (configuration, history) files, transitions = add() calls replayed; distinct_nontrivial = files with >= 2 accepted "
        "events of unequal row counts or with a rejected add")
ASSUMPTIONS = ["only argument-validation rejections are in the fault alphabet (I/O errors in the middle of an add are not claimed)",
               "ray paths are recording stubs exposing the same _metadata keys as the real path classes",
               "file-level counters (total_thrown) are not 'data of events' and are not compared after a rejected add"]
CHUNK = 1

EVENTS = [
    {"np": 1, "trig": "T", "rays": (1, 1), "waves": (1, 1)},
    {"np": 2, "trig": "F", "rays": (0, 2), "waves": (0, 2)},
    {"np": 1, "trig": "gT_fooF", "rays": (2, 1), "waves": (2, 1)},
    {"np": 2, "trig": "gF_fooT", "rays": (1, 0), "waves": (1, 2)},
    {"np": 1, "trig": "gT_list", "rays": (2, 2), "waves": (2, 2)},
    {"np": 1, "trig": "gT", "rays": (0, 0), "waves": (0, 0)},
    {"np": 2, "trig": "gT_bar_foo", "rays": (1, 2), "waves": (2, 1)},
]
FAULTS = [
    {"np": 1, "trig": "T", "rays": (1, 1), "waves": (1, 1), "fault": "ray_len"},
    {"np": 2, "trig": "T", "rays": (1, 2), "waves": (1, 1), "fault": "pol_len"},
    {"np": 1, "trig": "T", "rays": (1, 1), "waves": (1, 1), "fault": "no_rays"},
    {"np": 2, "trig": "T", "rays": (1, 1), "waves": (1, 1), "fault": "no_trigger"},
    {"np": 1, "trig": "T", "rays": (1, 1), "waves": (2, 1), "fault": "no_global"},
    # a numpy boolean as the trigger: the writer may take it for its truth value or refuse it -- but cleanly either way
    {"np": 2, "trig": "T", "rays": (2, 1), "waves": (1, 1), "fault": "np_bool_trigger"},
]
REQ = [True, False, "particles", "triggers", "antenna_triggers", "waveforms", "rays", "noise",
       ["particles", "triggers", "antenna_triggers", "waveforms", "rays", "noise"]]
DEFAULTS = {"write_particles": True, "write_triggers": True, "write_antenna_triggers": False, "write_rays": True,
            "write_noise": False, "write_waveforms": False}


def _configs(bound):
    out = []
    names = [n for n in hm.FLAGS if n != "write_particles"]
    for vals in itertools.product((False, True), repeat=len(names)):
        cfg = dict(DEFAULTS)
        cfg.update(dict(zip(names, vals)))
        if not hm.valid_config(cfg):
            continue
        dev = sum(1 for n in names if cfg[n] != DEFAULTS[n])
        if bound is not None and dev > bound:
            continue
        out.append(cfg)
    return out


def _adapt(spec, n_ant):
    s = dict(spec)
    for k in ("rays", "waves"):
        v = list(s[k])
        s[k] = tuple((v * n_ant)[:n_ant]) if n_ant != len(v) else tuple(v)
    return s


def cases(tier, seed):
    out = []
    if tier == "quick":
        near = _configs(1)
        for cfg in _configs(2):
            for req in (REQ if cfg in near else (True, False, REQ[-1])):
                out.append({"config": dict(cfg, require_trigger=req), "n_ant": 2, "depth": 2, "alphabet": "full"})
        for n_ant in (1, 3):
            out.append({"config": dict(DEFAULTS, write_waveforms=True, write_antenna_triggers=True, require_trigger=False),
                        "n_ant": n_ant, "depth": 2, "alphabet": "full"})
    else:
        for cfg in _configs(None):
            for req in REQ:
                out.append({"config": dict(cfg, require_trigger=req), "n_ant": 2, "depth": 3, "alphabet": "reduced"})
        for cfg in _configs(2):
            for n_ant in (1, 3):
                out.append({"config": dict(cfg, require_trigger=False), "n_ant": n_ant, "depth": 2, "alphabet": "full"})
    return out


def _alphabet(name):
    if name == "full":
        return EVENTS + FAULTS
    return [EVENTS[0], EVENTS[1], EVENTS[2], EVENTS[4], FAULTS[0], FAULTS[3]]


def run_history(config, n_ant, history, tmpdir):
    """Write the history into a fresh file, read it back sequentially; returns (failures, stats)."""
    from pyrex.io import File
    path = os.path.join(tmpdir, "h.h5")
    if os.path.exists(path):
        os.remove(path)
    drv = hm.Driver(path, config, n_ant)
    outcomes = []
    fails = []
    try:
        for spec in history:
            try:
                outcomes.append(drv.add(_adapt(spec, n_ant)))
            except Exception as e:
                if src.exception_origin(e) != "library":
                    raise
                fails.append(("add-exception", "add #%d raised %s" % (len(outcomes), src.short_tb(e))))
                outcomes.append("crashed")
                break
            if spec.get("fault") == "np_bool_trigger":
                continue            # accepted (recorded as its truth value) and rejected (nothing recorded) are both fine
            want_reject = spec.get("fault") is not None and _fault_applies(spec["fault"], config)
            if want_reject and outcomes[-1] != "rejected":
                fails.append(("fault-accepted", "add #%d with fault %r was accepted" % (len(outcomes) - 1, spec["fault"])))
            if not want_reject and outcomes[-1] == "rejected":
                fails.append(("valid-rejected", "add #%d (valid arguments) was rejected" % (len(outcomes) - 1)))
    finally:
        drv.close()
    if fails:
        return fails, outcomes, drv
    log = drv.log
    if not log or not any("particles" in e["expect"] for e in log):
        return fails, outcomes, drv        # files without any particle table are outside the alphabet (DESIGN C12 S)
    try:
        with File(path, "r") as f:
            n = len(f)
            if n != len(log):
                # trailing accepted events for which the options record nothing at all
                k_last = max(i for i, e in enumerate(log) if e["expect"])
                trailing_empty = (n == k_last + 1)
                fails.append(("event-count" if not trailing_empty else "event-count-trailing-empty",
                              "%d events read back, %d adds were accepted (outcomes %s)" % (n, len(log), outcomes)))
            for k, ev in enumerate(f):
                if k >= len(log):
                    break
                obs = hm.observe(ev)
                for name, val in obs.items():
                    if isinstance(val, tuple) and val and val[0] == "exception":
                        fails.append(("read-exception", "event %d %s: %s" % (k, name, val[1])))
                for chk, msg in hm.compare_with_log(obs, log[k], n_ant):
                    fails.append((chk, msg))
    except Exception as e:
        if src.exception_origin(e) != "library":
            raise
        fails.append(("read-exception", "reading the file back raised %s" % src.short_tb(e)))
    for chk, msg in hm.check_index_table(path):
        fails.append((chk, msg))
    return fails, outcomes, drv


def _trig_only(config):
    req = config.get("require_trigger", True)
    tables = ("particles", "triggers", "antenna_triggers", "waveforms", "rays", "noise")
    if isinstance(req, bool):
        return {t: (req and t not in ("particles", "triggers", "antenna_triggers")) for t in tables}
    keys = [req] if isinstance(req, str) else list(req)
    return {t: (t in keys) for t in tables}


def _fault_applies(fault, config):
    """Does the writer have to consult the faulty argument at all under this configuration?"""
    to = _trig_only(config)
    wd = {"particles": True, "triggers": config.get("write_triggers", True), "antenna_triggers": config.get("write_antenna_triggers", False),
          "waveforms": config.get("write_waveforms", False), "rays": config.get("write_rays", True), "noise": config.get("write_noise", False)}
    if fault in ("ray_len", "pol_len", "no_rays"):
        if fault == "no_rays":
            return bool(wd["rays"])
        # the ray lists are only looked at when ray data is actually recorded for this (triggered) event
        return bool(wd["rays"])
    if fault == "no_trigger":
        return any(to.values()) or bool(wd["triggers"])
    if fault == "no_global":
        return bool(wd["triggers"]) or any(wd[t] and to[t] for t in wd)
    return False


def evaluate(case):
    config, n_ant, depth = case["config"], case["n_ant"], case["depth"]
    alpha = _alphabet(case["alphabet"])
    fails = []
    nontriv = []
    states = trans = 0
    hists = [tuple(h) for d in range(1, depth + 1) for h in itertools.product(range(len(alpha)), repeat=d)]
    if "history" in case:
        hists = [tuple(case["history"])]
    with tempfile.TemporaryDirectory(prefix="c11-") as tmp:
        for h in hists:
            history = [alpha[i] for i in h]
            f, outcomes, drv = run_history(config, n_ant, history, tmp)
            states += 1
            trans += len(h)
            rows = [sum(sp["rays"]) + sp["np"] for sp, o in zip(history, outcomes) if o == "accepted"]
            if ("rejected" in outcomes and drv.log) or len(set(rows)) >= 2:
                nontriv.append("%s|%d|%s" % (sorted(config.items(), key=str), n_ant, h))
            for chk, msg in f:
                last_rejected = bool(outcomes) and outcomes[-1] == "rejected"
                fails.append({"check": chk,
                              "what": "config %s, %d antennas, history %s (outcomes %s): %s"
                                      % ({k: v for k, v in config.items() if v != DEFAULTS.get(k, True) or k == "require_trigger"}, n_ant,
                                         [_short(s) for s in history], outcomes, msg),
                              "tags": {"group": chk, "last_add_rejected": last_rejected, "has_rejected": "rejected" in outcomes,
                                       "antenna_triggers": bool(config.get("write_antenna_triggers")),
                                       "require_trigger": str(config.get("require_trigger"))},
                              "size": len(h) * 10 + sum(h),
                              "replay": dict(case, history=list(h))})
    return {"n": trans, "nontrivial": nontriv, "fails": fails, "states": states, "transitions": trans,
            "sample": {"config": config, "n_ant": n_ant, "history": [_short(alpha[i]) for i in hists[len(hists) // 2]]}}


def _short(s):
    return "%dp/%s/r%s/w%s%s" % (s["np"], s["trig"], "".join(map(str, s["rays"])), "".join(map(str, s["waves"])),
                                 ("!" + s["fault"]) if s.get("fault") else "")
