"""C12 -- every way of reading or continuing a file yields the same event stream.

For each file of a family written by the C11 driver with unequal per-event row counts: every chunk size, every
integer index, every slice (all spellings, steps 1..3), every split of the add sequence into append sessions, and
FileGenerator over every ordered list of 1-2 files x chunk sizes.  Oracle: the sequential single-chunk pass of the
same file (differential) / the single-session file / the reference particle list.
"""
import itertools
import os
import tempfile

import numpy as np

from ..engine import src
from ..oracles import h5model as hm
from . import c11

PID = "C12"
LEVEL = "model_checking"
RULE = ("file family = {3 configurations} x event sequences of length n<=6 with unequal row counts; for each file: slice_range 1..n+1, "
        "all indices -n..n-1 (+ both out-of-range ones), all slices 0<=start<stop<=n in every negative/None spelling x step 1..3 x "
        "reader chunk size {None,2}, all 2^(n-1) append-session splits x {mode a, mode r+, mode a with the file read through between sessions}, FileGenerator over ordered lists of 1-2 files x "
        "slice_range 1..5; every sequence of <= 2 (thorough 3) access operations out of 8 (index, full / abandoned iteration, slices, len) on "
        "one open File x reader chunk size {None,2}, with the event objects handed out observed again at the end; states = distinct access paths evaluated, transitions = events read; distinct_nontrivial = access paths "
        "returning >= 1 event")
ASSUMPTIONS = ["zero-event files are outside the alphabet (no particle table)",
               "oracle for reader paths is the sequential single-chunk pass of the same file"]
CHUNK = 1

FAMILY = {
    "all_tables": dict(c11.DEFAULTS, write_waveforms=True, write_antenna_triggers=True, write_noise=True, require_trigger=False),
    "default": dict(c11.DEFAULTS, require_trigger=True),
    "trig_only_rays": dict(c11.DEFAULTS, write_waveforms=True, require_trigger=["rays", "waveforms"]),
}
SEQS = {
    "six": [0, 1, 2, 3, 4, 6],
    "four": [4, 1, 6, 0],
    "two": [2, 1],
}


def cases(tier, seed):
    out = []
    for fam in FAMILY:
        for sq in (("six", "two") if tier == "quick" else SEQS):
            for kind in ("chunks", "index", "slices", "append"):
                out.append({"family": fam, "seq": sq, "kind": kind})
            out.append({"family": fam, "seq": sq, "kind": "mixed", "depth": 2 if tier == "quick" else 3})
    for fam in FAMILY:
        out.append({"family": fam, "kind": "generator"})
    return out


ANALYSIS = "ranked"


def _analysis_rows(n):
    """event i -> (row, payload): the rows of the analysis dataset are filled in an order different from the event order"""
    perm = [(3 * i + 2) % n if n % 3 else (i + n // 2) % n for i in range(n)]
    if sorted(perm) != list(range(n)):
        perm = list(range(n))[::-1]
    return [(perm[i], [float(i), 10.0 * i + 0.5]) for i in range(n)]


def _write(path, config, seq, sessions=None, mode="a", read_between=False, analysis=False):
    """Write EVENTS[seq] to path; `sessions` = set of positions after which the file is closed and re-opened for appending;
    with `read_between` the file is read through (by this same process) between two sessions."""
    from pyrex.io import File
    drv = hm.Driver(path, config, 2)
    try:
        for k, i in enumerate(seq):
            r = drv.add(c11.EVENTS[i])
            if r != "accepted":
                raise src.HarnessError("valid add rejected")
            if sessions and k in sessions:
                drv.close()
                if read_between:
                    with File(path, "r") as f:
                        _obs_list(f)
                drv.open(mode)
        if analysis:
            # an analysis dataset with one row per event, linked to the events out of order (e.g. rows ranked by a score)
            rows = _analysis_rows(len(seq))
            ds = drv.writer.create_analysis_dataset(ANALYSIS, shape=(len(seq), 2), dtype=np.float64)
            for i, (row, payload) in enumerate(rows):
                ds[row] = payload
                drv.writer.add_analysis_indices(ANALYSIS, i, row)
    finally:
        drv.close()
    return drv


def _obs(ev):
    o = hm.observe(ev)
    try:
        o["analysis"] = np.asarray(ev.get_data(ANALYSIS), dtype=float).tolist()
    except Exception as e:
        if src.exception_origin(e) != "library":
            raise
        o["analysis"] = "none"          # no such dataset in this file (or the reader refuses): the same for every access path
    return o


def _obs_list(it):
    return [_obs(ev) for ev in it]


def _has_exc(obs):
    return [(k, v[1]) for o in obs for k, v in o.items() if isinstance(v, tuple) and v and v[0] == "exception"]


def evaluate(case):
    from pyrex.io import File
    fails = []
    nontriv = []
    states = trans = 0

    def fail(check, what, **tags):
        tags["group"] = check
        tags["family"] = case["family"]
        fails.append({"check": check, "what": "%s/%s: %s" % (case["family"], case.get("seq"), what), "tags": tags})

    config = FAMILY[case["family"]]
    with tempfile.TemporaryDirectory(prefix="c12-") as tmp:
        if case["kind"] == "generator":
            return _generator_case(case, config, tmp)
        seq = SEQS[case["seq"]]
        n = len(seq)
        path = os.path.join(tmp, "base.h5")
        with_analysis = case["kind"] in ("chunks", "index", "slices", "mixed")
        drv = _write(path, config, seq, analysis=with_analysis)
        with File(path, "r") as f:
            ref = _obs_list(f)
            nlen = len(f)
        if with_analysis and len(ref) == n:
            for k, (row, payload) in enumerate(_analysis_rows(n)):
                if ref[k].get("analysis") != [payload]:
                    fail("sequential-analysis", "sequential pass: event %d reads analysis data %r, linked row holds %r" % (k, ref[k].get("analysis"), payload))
        if nlen != n or len(ref) != n:
            fail("sequential", "sequential pass returns %d events, len() %d, %d written" % (len(ref), nlen, n))
            return {"n": 1, "nontrivial": [], "fails": fails, "states": 1, "transitions": n}
        # the sequential pass itself must agree with the reference log (C11's oracle) so that the differential baseline is sound
        for k in range(n):
            for chk, msg in hm.compare_with_log(ref[k], drv.log[k], 2):
                fail("sequential-" + chk, msg)
        if fails:
            return {"n": 1, "nontrivial": [], "fails": fails, "states": 1, "transitions": n}

        def cmp(label, got, want_idx, **tags):
            nonlocal states, trans
            states += 1
            trans += len(got)
            if len(got):
                nontriv.append("%s|%s|%s" % (case["family"], case["seq"], label))
            if len(got) != len(want_idx):
                fail("access-count", "%s returns %d events, expected events %s" % (label, len(got), want_idx), **tags)
                return
            for o, i in zip(got, want_idx):
                if not hm.same_obs(o, ref[i]):
                    diff = [k for k in o if not hm.same_obs(o[k], ref[i][k])]
                    fail("access-data", "%s: the event at position of event %d differs from the sequential pass in %s (e.g. %s vs %s)"
                         % (label, i, diff, str(o[diff[0]])[:120], str(ref[i][diff[0]])[:120]), **tags)
                    return

        if case["kind"] == "chunks":
            for k in range(1, n + 2):
                try:
                    with File(path, "r", slice_range=k) as f:
                        got = _obs_list(f)
                except Exception as e:
                    if src.exception_origin(e) != "library":
                        raise
                    fail("access-exception", "iteration with slice_range=%d raised %s" % (k, src.short_tb(e)))
                    continue
                cmp("iteration with slice_range=%d" % k, got, list(range(n)))
        elif case["kind"] == "index":
            with File(path, "r") as f:
                for i in range(-n, n):
                    try:
                        got = [_obs(f[i])]
                    except Exception as e:
                        if src.exception_origin(e) != "library":
                            raise
                        fail("access-exception", "f[%d] raised %s" % (i, src.short_tb(e)))
                        continue
                    cmp("f[%d]" % i, got, [i % n])
                for i in (n, -n - 1):
                    states += 1
                    try:
                        f[i]
                        fail("index-range", "f[%d] did not raise IndexError for a file of %d events" % (i, n))
                    except IndexError:
                        pass
                    except Exception as e:
                        if src.exception_origin(e) != "library":
                            raise
                        fail("index-range", "f[%d] raised %s instead of IndexError" % (i, type(e).__name__))
        elif case["kind"] == "slices":
            for sr in (None, 2):
                with File(path, "r", slice_range=sr) as f:
                    for start in range(n):
                        for stop in range(start + 1, n + 1):
                            for step in (None, 1, 2, 3):
                                starts = {start, start - n} | ({None} if start == 0 else set())
                                stops = {stop} | ({stop - n} if stop < n else set()) | ({None} if stop == n else set())
                                for a, b in itertools.product(sorted(starts, key=str), sorted(stops, key=str)):
                                    label = "f[%s:%s:%s] (reader slice_range=%s)" % (a, b, step, sr)
                                    try:
                                        got = _obs_list(f[a:b:step])
                                    except Exception as e:
                                        if src.exception_origin(e) != "library":
                                            raise
                                        fail("access-exception", "%s raised %s" % (label, src.short_tb(e)),
                                             negative_stop=bool(b is not None and b < 0), step=step or 1)
                                        continue
                                    cmp(label, got, list(range(start, stop, step or 1)), step=step or 1,
                                        negative_stop=bool(b is not None and b < 0))
        elif case["kind"] == "mixed":
            # every sequence (length <= depth) of access operations on ONE open File: the answer of each operation is fixed by
            # the file alone, whatever was read before; event objects handed out earlier are observed again at the very end
            ops = [("idx", 0), ("idx", n - 1), ("idx", -2 if n > 2 else -1), ("iter",), ("iter_partial", 2 if n > 2 else 1),
                   ("slice", 1, n - 1, 2), ("slice", None, -1, None), ("len",)]
            depth = case["depth"]
            seqs_ = [q for d in range(1, depth + 1) for q in itertools.product(range(len(ops)), repeat=d)]
            if case.get("ops") is not None:
                seqs_ = [tuple(case["ops"])]
            for sr in (None, 2):
                for q in seqs_:
                    label0 = "one File (slice_range=%s), operations %s" % (sr, [ops[i] for i in q])
                    held = []
                    try:
                        with File(path, "r", slice_range=sr) as f:
                            for step_, oi in enumerate(q):
                                op = ops[oi]
                                label = "%s, operation #%d" % (label0, step_)
                                if op[0] == "idx":
                                    ev = f[op[1]]
                                    held.append((op[1] % n, ev))
                                    cmp(label, [_obs(ev)], [op[1] % n], ops=list(q))
                                elif op[0] == "iter":
                                    cmp(label, _obs_list(f), list(range(n)), ops=list(q))
                                elif op[0] == "iter_partial":
                                    # (an iterator is a cursor: `next` hands back the iterator itself, positioned on the next
                                    # event -- by design; so each event is observed when it is reached and none is held)
                                    it = iter(f)
                                    cmp(label, [_obs(next(it)) for _ in range(op[1])], list(range(op[1])), ops=list(q))
                                elif op[0] == "slice":
                                    want = list(range(n))[op[1]:op[2]:op[3]]
                                    cmp(label, _obs_list(f[op[1]:op[2]:op[3]]), want, ops=list(q))
                                else:
                                    states += 1
                                    if len(f) != n:
                                        fail("access-count", "%s: len(file) = %d, %d events" % (label, len(f), n), ops=list(q))
                            for i_, ev in held:
                                cmp(label0 + ", event %d handed out earlier and observed at the end" % i_, [_obs(ev)], [i_], ops=list(q))
                    except Exception as e:
                        if src.exception_origin(e) != "library":
                            raise
                        fail("access-exception", "%s raised %s" % (label0, src.short_tb(e)), ops=list(q))
        elif case["kind"] == "append":
            for mode, rb in (("a", False), ("r+", False), ("a", True)):
                for split in itertools.product((0, 1), repeat=n - 1):
                    if not any(split):
                        continue
                    sessions = {k for k, s in enumerate(split) if s}
                    # a name never used before in this process (whatever a reader may remember about a path is then fresh)
                    p2 = os.path.join(tmp, "app_%s_%d_%s.h5" % (mode.replace("+", "p"), rb, "".join(map(str, split))))
                    label = "sessions closed after adds %s, re-opened with mode %r%s" % (
                        sorted(sessions), mode, " (file read through between sessions)" if rb else "")
                    try:
                        _write(p2, config, seq, sessions, mode, rb)
                        with File(p2, "r") as f:
                            got = _obs_list(f)
                            thrown = f.total_events_thrown
                        with File(path, "r") as f:
                            thrown_ref = f.total_events_thrown
                    except src.HarnessError:
                        fail("append-rejected", "%s: a valid add was rejected" % label)
                        continue
                    except Exception as e:
                        if src.exception_origin(e) != "library":
                            raise
                        fail("access-exception", "%s raised %s" % (label, src.short_tb(e)))
                        continue
                    cmp(label, got, list(range(n)), mode=mode)
                    if thrown != thrown_ref:
                        fail("append-thrown", "%s: total_events_thrown %r, single session %r" % (label, thrown, thrown_ref))
                    for chk, msg in hm.check_index_table(p2):
                        fail(chk, "%s: %s" % (label, msg))
                    os.remove(p2)
    return {"n": trans, "nontrivial": nontriv, "fails": fails, "states": states, "transitions": trans,
            "sample": {"family": case["family"], "seq": case.get("seq"), "kind": case["kind"]}}


def _generator_case(case, config, tmp):
    from pyrex.generation import FileGenerator
    fails = []
    nontriv = []
    states = trans = 0
    files = {}
    logs = {}
    for name, seq in SEQS.items():
        p = os.path.join(tmp, name + ".h5")
        drv = _write(p, config, seq)
        files[name] = p
        logs[name] = drv.log
    lists = [[a] for a in files] + [[a, b] for a in files for b in files if a != b]
    for names in lists:
        for sr in (1, 2, 3, 4, 5, 100):
            states += 1
            label = "FileGenerator(%s, slice_range=%d)" % (names, sr)
            want = []
            totals = []
            for nm in names:
                for e in logs[nm]:
                    want.append(e)
                totals.append(sum(e["thrown"] for e in logs[nm]))
            try:
                g = FileGenerator([files[nm] for nm in names], slice_range=sr)
                got = []
                counts = []
                while True:
                    try:
                        ev = g.create_event()
                    except StopIteration:
                        break
                    got.append(ev)
                    counts.append(g.count)
                    if len(got) > len(want) + 3:
                        break
            except Exception as e:
                if src.exception_origin(e) != "library":
                    raise
                fails.append({"check": "generator-exception", "what": "%s raised %s" % (label, src.short_tb(e)), "tags": {"group": "generator-exception"}})
                continue
            trans += len(got)
            if len(got) != len(want):
                fails.append({"check": "generator-count", "what": "%s replays %d events, files hold %d" % (label, len(got), len(want)),
                              "tags": {"group": "generator-count"}})
                continue
            nontriv.append("%s|gen|%s|%d" % (case["family"], names, sr))
            bad = None
            for k, (ev, w) in enumerate(zip(got, want)):
                exp = w["expect"].get("particles")
                parts = list(ev)
                if exp is None:
                    continue
                if len(parts) != len(exp):
                    bad = "event %d has %d particles, stored %d" % (k, len(parts), len(exp))
                    break
                for p, m in zip(parts, exp):
                    g_ = p._metadata
                    for key in ("particle_id", "vertex_x", "vertex_y", "vertex_z", "direction_x", "direction_y", "direction_z", "energy",
                                "interaction_kind", "interaction_inelasticity", "interaction_em_frac", "interaction_had_frac",
                                "survival_weight", "interaction_weight"):
                        if g_.get(key) is None or not abs(float(g_[key]) - float(m[key])) <= 1e-12 * max(1.0, abs(float(m[key]))):
                            bad = "event %d: %s replayed as %r, stored %r" % (k, key, g_.get(key), m[key])
                            break
                    if bad:
                        break
                if bad:
                    break
            if bad:
                fails.append({"check": "generator-data", "what": "%s: %s" % (label, bad), "tags": {"group": "generator-data"}})
            if any(b < a for a, b in zip(counts[:-1], counts[1:])):
                fails.append({"check": "generator-count-monotone", "what": "%s: count decreases: %s" % (label, counts), "tags": {"group": "generator-count-monotone"}})
            # at the end of each file the count equals the stored totals so far
            pos = 0
            acc = 0
            for nm, tot in zip(names, totals):
                pos += len(logs[nm])
                acc += tot
                if counts[pos - 1] != acc:
                    fails.append({"check": "generator-count-total", "what": "%s: count after the last event of %s is %r, stored total %r (counts %s)"
                                                                        % (label, nm, counts[pos - 1], acc, counts), "tags": {"group": "generator-count-total"}})
                    break
    return {"n": trans, "nontrivial": nontriv, "fails": fails, "states": states, "transitions": trans,
            "sample": {"family": case["family"], "kind": "generator", "file_lists": len(lists)}}
