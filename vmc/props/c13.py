"""C13 -- generators: uniform, isotropic, correctly weighted, counted.

(i) lattices over the owned random draws of get_vertex / get_direction / get_particle_type: the map from the
    K-point midpoint lattice cube to equal-volume (equal-solid-angle) cells must be a bijection;
(ii) exit points over a lattice of vertices (axis, interior, faces) x directions (26 vectors of {-1,0,1}^3 + grazing);
(iii) create_event end to end: every draw a choice point, deviation bound 2 around the default stream;
(iv) ListGenerator: BFS over {create_event, set count} with loop on/off.
"""
import itertools
import math

import numpy as np

from ..engine import choice, graph, rng, src
from ..oracles import earth as ex
from ..oracles import geom
from ..oracles import published as pub

PID = "C13"
LEVEL = "exploration"
RULE = ("(i) K^3 vertex lattices (cylinder, box) and K^2 direction / flavour lattices, K=16 quick / 48 thorough, + the end value 0.0; "
        "(ii) 2 cylinders x 2 boxes x vertices x 30 directions; (iii) create_event for generator shape x shadow x interaction model x "
        "energy x flavour ratio x source with every draw a choice point over {default,0,0.25,0.5,0.75,0.999}, deviation bound 1 quick / 2 "
        "thorough; (iv) ListGenerator BFS to depth len+2; distinct_nontrivial = distinct lattice points / thrown events / list states")
ASSUMPTIONS = ["a vertex exactly on a face combined with a direction parallel to that face within rounding is an ill-posed tie and its interaction weight is not compared",
               "uniformity/isotropy are verified as bijections between lattice cubes and equal-measure cells of the owned variates",
               "directions with a relative component below 1e-9 are not in the lattice (DESIGN C13 S)",
               "survival weight tolerance = C15 discretisation bound of slant_depth(step=500) divided by the interaction length",
               "secondaries are switched off in (iii) to bound the number of draws per throw"]
CHUNK = 1

MENU = [0.0, 0.25, 0.5, 0.75, 0.999]


def cases(tier, seed):
    K = 16 if tier == "quick" else 48
    out = [{"kind": "vertex", "shape": "cyl", "K": K}, {"kind": "vertex", "shape": "box", "K": K},
           {"kind": "direction", "K": 4 * K}, {"kind": "flavour", "K": 4 * K}]
    for shape in ("cyl_a", "cyl_b", "box_a", "box_b"):
        out.append({"kind": "exit", "shape": shape})
    d = 1 if tier == "quick" else 2
    for shape in ("cyl", "box"):
        for shadow in (False, True):
            for model in ("CTW", "GQRS"):
                for e in (1e3, 1e6, 1e9, 1e12):
                    out.append({"kind": "event", "shape": shape, "shadow": shadow, "model": model, "energy": e,
                                "ratio": [1, 1, 1], "source": "cosmogenic", "bound": d})
        out.append({"kind": "event", "shape": shape, "shadow": True, "model": "CTW", "energy": "callable",
                    "ratio": [1, 0, 0], "source": "astrophysical", "bound": d})
        out.append({"kind": "event", "shape": shape, "shadow": False, "model": "CTW", "energy": 1e9,
                    "ratio": [0, 1, 2], "source": "astrophysical", "bound": d})
        # the generator's own earth_model option (the three-shell model instead of the default PREM)
        for shadow in (False, True):
            out.append({"kind": "event", "shape": shape, "shadow": shadow, "model": "CTW", "energy": 1e6,
                        "ratio": [1, 1, 1], "source": "cosmogenic", "bound": d, "earth": "cmc"})
    for loop in (True, False):
        out.append({"kind": "list", "loop": loop})
    return out


def _gen(shape, **kw):
    from pyrex import generation
    if shape.startswith("cyl"):
        dr, dz = (1000.0, 500.0) if shape in ("cyl", "cyl_a") else (64.0, 2800.0)
        return generation.CylindricalGenerator(dr, dz, **kw), ("cyl", dr, dz)
    dx, dy, dz = (2000.0, 1000.0, 500.0) if shape in ("box", "box_a") else (128.0, 128.0, 2800.0)
    return generation.RectangularGenerator(dx, dy, dz, **kw), ("box", dx, dy, dz)


def _lat(K):
    return [(i + 0.5) / K for i in range(K)]


def _vertex_case(case):
    K = case["K"]
    g, dims = _gen(case["shape"], energy=1e9)
    lat = _lat(K)
    fails = []
    seen = set()
    n = 0
    for (i, u1), (j, u2), (k, u3) in itertools.product(enumerate(lat), repeat=3):
        n += 1
        with rng.owned(rng.ScriptSource(script={0: u1, 1: u2, 2: u3})) as s:
            v = g.get_vertex()
        if s.n != 3:
            fails.append({"check": "vertex-draws", "what": "get_vertex consumed %d draws, expected 3" % s.n})
            break
        if dims[0] == "cyl":
            _, dr, dz = dims
            c = ((v[0] ** 2 + v[1] ** 2) / dr ** 2, (math.atan2(v[1], v[0]) % (2 * math.pi)) / (2 * math.pi), -v[2] / dz)
        else:
            _, dx, dy, dz = dims
            c = ((v[0] + dx / 2) / dx, (v[1] + dy / 2) / dy, -v[2] / dz)
        if not all(0 <= x < 1 for x in c):
            fails.append({"check": "vertex-inside", "what": "%s draws (%g,%g,%g): vertex %s outside the volume" % (case["shape"], u1, u2, u3, v.tolist())})
            continue
        cell = tuple(int(math.floor(x * K + 1e-9 * (0.5 - (x * K % 1)))) for x in c)
        cell = tuple(int(math.floor(x * K)) for x in c)
        seen.add(cell)
    total = K ** 3
    if not fails and len(seen) != total:
        fails.append({"check": "vertex-uniform", "what": "%s: the %d lattice points fall into only %d of the %d equal-volume cells"
                                                         % (case["shape"], total, len(seen), total), "tags": {"group": "vertex-uniform", "shape": case["shape"]}})
    # end value 0.0 is a legal draw
    with rng.owned(rng.ScriptSource(script={0: 0.0, 1: 0.0, 2: 0.0})):
        v0 = g.get_vertex()
    n += 1
    if not np.all(np.isfinite(v0)):
        fails.append({"check": "vertex-inside", "what": "draws (0,0,0) give a non-finite vertex %s" % v0})
    return {"n": n, "nontrivial": ["%s|%s" % (case["shape"], c) for c in seen], "fails": fails,
            "stats": {"cells_hit": len(seen), "cells": total}, "sample": {"shape": case["shape"], "K": K}}


def _direction_case(case):
    K = case["K"]
    g, _ = _gen("cyl", energy=1e9)
    lat = _lat(K)
    fails = []
    seen = set()
    n = 0
    for u1, u2 in itertools.product(lat, repeat=2):
        n += 1
        with rng.owned(rng.ScriptSource(script={0: u1, 1: u2})) as s:
            d = g.get_direction()
        if s.n != 2 or abs(float(np.linalg.norm(d)) - 1) > 1e-12:
            fails.append({"check": "direction-unit", "what": "draws (%g,%g): direction %s (|d|=%r), %d draws" % (u1, u2, d.tolist(), np.linalg.norm(d), s.n)})
            continue
        c = ((d[2] + 1) / 2, (math.atan2(d[1], d[0]) % (2 * math.pi)) / (2 * math.pi))
        seen.add((min(K - 1, int(math.floor(c[0] * K))), min(K - 1, int(math.floor(c[1] * K)))))
    if not fails and len(seen) != K * K:
        fails.append({"check": "direction-isotropic", "what": "the %d lattice points fall into only %d of the %d equal-solid-angle cells"
                                                              % (K * K, len(seen), K * K), "tags": {"group": "direction-isotropic"}})
    return {"n": n, "nontrivial": ["dir|%s" % (c,) for c in seen], "fails": fails, "stats": {"cells_hit": len(seen), "cells": K * K},
            "sample": {"K": K}}


def _flavour_case(case):
    from pyrex.particle import Particle
    K = case["K"]
    lat = _lat(K)
    fails = []
    nontriv = set()
    n = 0
    T = Particle.Type
    shared = {}
    for ratio, source, reuse in itertools.product(((1, 1, 1), (1, 0, 0), (0, 1, 2), (2, 1, 1)), ("cosmogenic", "astrophysical"),
                                                  (False, True, "array")):
        if not reuse:
            g, _ = _gen("cyl", energy=1e9, flavor_ratio=ratio, source=source)
        elif reuse == "array":
            # the ratio handed over as the caller's float array, which the caller goes on to use for something else
            arr = np.array(ratio, dtype=np.float64)
            g, _ = _gen("cyl", energy=1e9, flavor_ratio=arr, source=source)
            n += 1
            if not np.array_equal(arr, np.array(ratio, dtype=np.float64)):
                fails.append({"check": "flavour-argument", "what": "constructing a generator changed the flavor_ratio array it was given: %s -> %s"
                                                                   % (list(ratio), arr.tolist()), "tags": {"group": "flavour-argument"}})
            arr[:] = (0.0, 0.0, 5.0)
        else:
            # ONE generator per source that has already thrown with another ratio and is given the new one through its
            # documented `ratio` attribute
            if source not in shared:
                shared[source] = _gen("cyl", energy=1e9, flavor_ratio=(5, 3, 1), source=source)[0]
                with rng.owned(rng.ScriptSource(script={0: 0.3, 1: 0.3})):
                    shared[source].get_particle_type()
            g = shared[source]
            g.ratio = np.array(ratio, dtype=float) / sum(ratio)
        r = np.array(ratio, dtype=float) / sum(ratio)
        nb = (0.78, 0.61, 0.61) if source == "cosmogenic" else (0.5, 0.5, 0.5)
        edges = [r[0], r[0] + r[1]]
        pts = sorted(set(lat + [e * (1 - 2.0 ** -30) for e in edges if 0 < e < 1] + [e * (1 + 2.0 ** -30) for e in edges if 0 < e * (1 + 2.0 ** -30) < 1] + [0.0]))
        pts2 = sorted(set(lat + [b * (1 - 2.0 ** -30) for b in nb] + [b * (1 + 2.0 ** -30) for b in nb] + [0.0]))
        for u1 in pts:
            for u2 in pts2:
                n += 1
                with rng.owned(rng.ScriptSource(script={0: u1, 1: u2})):
                    t = g.get_particle_type()
                fl = 0 if u1 < edges[0] else (1 if u1 < edges[1] else 2)
                want = [T.electron_neutrino, T.muon_neutrino, T.tau_neutrino][fl] if u2 < nb[fl] else \
                    [T.electron_antineutrino, T.muon_antineutrino, T.tau_antineutrino][fl]
                nontriv.add("fl|%s|%s|%s" % (ratio, source, t.name))
                if t != want:
                    fails.append({"check": "flavour", "what": "ratio %s%s source %s draws (%r,%r): %s, configured thresholds give %s"
                                                              % (ratio, " (assigned to a generator that had thrown before)" if reuse is True else
                                                                 (" (given as an array the caller re-used afterwards)" if reuse else ""),
                                                                 source, u1, u2, t.name, want.name), "tags": {"group": "flavour", "reuse": str(reuse)}})
    return {"n": n, "nontrivial": sorted(nontriv), "fails": fails, "sample": {"K": K}}


def _exit_case(case):
    from pyrex.particle import Particle, Interaction
    g, dims = _gen(case["shape"], energy=1e9)
    fails = []
    nontriv = []
    n = 0
    dirs = [v for v in itertools.product((-1, 0, 1), repeat=3) if any(v)]
    dirs += [(1, 0.5, 1e-3), (1e-3, -1, 0.25), (0.2, 1e-4, -1), (1, 1e-6, 0.3)]
    if dims[0] == "cyl":
        _, dr, dz = dims
        verts = [(0, 0, -dz / 2), (dr / 2, 0, -dz / 4), (0, -dr / 3, -3 * dz / 4), (dr / 4, dr / 5, -1.0), (-dr * 0.6, dr * 0.6, -dz + 1.0),
                 (dr / 8, -dr / 7, 0.0), (0.0, 0.0, 0.0)]
        inside = lambda v: v[0] ** 2 + v[1] ** 2 <= dr ** 2 * (1 + 1e-9) and -dz - 1e-6 <= v[2] <= 1e-6
        boundary = lambda v: (abs(math.hypot(v[0], v[1]) - dr) <= 1e-6 * dr and -dz - 1e-6 <= v[2] <= 1e-6) or \
                             (min(abs(v[2]), abs(v[2] + dz)) <= 1e-6 and v[0] ** 2 + v[1] ** 2 <= dr ** 2 * (1 + 1e-9))
        interval = lambda v, d: geom.cylinder_interval(v, d, dr, dz)
    else:
        _, dx, dy, dz = dims
        verts = [(0, 0, -dz / 2), (dx / 4, -dy / 8, -dz / 4), (-dx / 3, dy / 3, -3 * dz / 4), (dx / 2 - 1, dy / 2 - 1, -1.0),
                 (-dx / 2, dy / 5, -dz / 3), (dx / 7, -dy / 2, -dz / 2), (dx / 9, dy / 9, -dz), (-dx / 2, -dy / 2, -dz)]
        inside = lambda v: abs(v[0]) <= dx / 2 + 1e-6 and abs(v[1]) <= dy / 2 + 1e-6 and -dz - 1e-6 <= v[2] <= 1e-6
        boundary = lambda v: inside(v) and (min(abs(abs(v[0]) - dx / 2), abs(abs(v[1]) - dy / 2), abs(v[2]), abs(v[2] + dz)) <= 1e-6)
        interval = lambda v, d: geom.box_interval(v, d, dx, dy, dz)
    for v in verts:
        for d in dirs:
            n += 1
            p = Particle(12, vertex=v, direction=d, energy=1e9, interaction_model=Interaction)
            dn = p.direction
            iv = interval(np.array(v, float), dn)
            on_boundary = boundary(np.array(v, float))
            through_edge = False
            if iv is not None:
                for pt in geom.points(v, dn, iv):
                    if dims[0] == "box":
                        faces = int(abs(abs(pt[0]) - dims[1] / 2) <= 1e-9 * dims[1]) + int(abs(abs(pt[1]) - dims[2] / 2) <= 1e-9 * dims[2]) + \
                                int(min(abs(pt[2]), abs(pt[2] + dims[3])) <= 1e-9 * dims[3])
                    else:
                        faces = int(abs(math.hypot(pt[0], pt[1]) - dims[1]) <= 1e-9 * dims[1]) + int(min(abs(pt[2]), abs(pt[2] + dims[2])) <= 1e-9 * dims[2])
                    through_edge = through_edge or faces >= 2
            tags = {"shape": case["shape"], "vertex_on_boundary": bool(on_boundary), "group": "exit|" + ("boundary" if on_boundary else "interior"),
                    "axis_parallel": int(sum(1 for c in d if c == 0)), "line_through_edge": bool(through_edge),
                    "near_axis_direction": _near_axis(dn), "volume": dims[0]}
            desc = "%s vertex %s direction %s" % (case["shape"], list(v), list(d))
            try:
                ent, exi = g.get_exit_points(p)
            except Exception as e:
                if src.exception_origin(e) != "library" and not isinstance(e, ValueError):
                    raise
                fails.append({"check": "exit-exception", "what": "%s: %s" % (desc, src.short_tb(e)), "tags": dict(tags, exc=type(e).__name__)})
                continue
            ent, exi = np.asarray(ent, float), np.asarray(exi, float)
            want_in, want_out = geom.points(v, dn, iv)
            scale = max(dims[1:])
            ok = (np.all(np.isfinite(ent)) and np.all(np.isfinite(exi)) and
                  np.max(np.abs(ent - want_in)) <= 1e-8 * scale and np.max(np.abs(exi - want_out)) <= 1e-8 * scale)
            if not ok:
                fails.append({"check": "exit-points", "what": "%s: entry %s exit %s, intersection of the line with the volume gives %s / %s"
                                                              % (desc, ent.tolist(), exi.tolist(), want_in.tolist(), want_out.tolist()), "tags": tags})
                continue
            # stated relations, independent of the oracle: on the boundary, on the line, vertex between
            for name, pt in (("entry", ent), ("exit", exi)):
                if not boundary(pt):
                    fails.append({"check": "exit-on-boundary", "what": "%s: %s point %s is not on the boundary" % (desc, name, pt.tolist()), "tags": tags})
                off = np.cross(pt - np.array(v, float), dn)
                if np.linalg.norm(off) > 1e-8 * scale:
                    fails.append({"check": "exit-on-line", "what": "%s: %s point %s is not on the line of flight" % (desc, name, pt.tolist()), "tags": tags})
            if not (np.dot(ent - np.array(v, float), dn) <= 1e-8 * scale and np.dot(exi - np.array(v, float), dn) >= -1e-8 * scale):
                fails.append({"check": "exit-order", "what": "%s: vertex is not between entry %s and exit %s" % (desc, ent.tolist(), exi.tolist()), "tags": tags})
            nontriv.append("exit|%s|%s|%s" % (case["shape"], v, d))
    return {"n": n, "nontrivial": nontriv, "fails": fails, "sample": {"shape": case["shape"], "vertices": len(verts), "directions": len(dirs)}}


def _near_axis(d):
    d = np.abs(np.asarray(d, dtype=float))
    m = float(np.max(d))
    return bool(np.any((d > 0) & (d < 1e-9 * m)))


def _dir_from(d3, d4):
    ct = 2 * d3 - 1
    st = math.sqrt(max(0.0, 1 - ct * ct))
    ph = 2 * math.pi * d4
    return np.array([st * math.cos(ph), st * math.sin(ph), ct])


# ---- end-to-end events ------------------------------------------------------------------------------------
def _sigma_tot(model, pid, energy):
    flav = "nu" if pid > 0 else "nubar"
    eps = math.log10(energy)
    if model == "CTW":
        tot = 0.0
        for k in ("cc", "nc"):
            c0, c1, c2, c3, c4 = pub.CTW_SIGMA[(flav, k)]
            ln = math.log(eps - c0)
            tot += 10 ** (c1 + c2 * ln + c3 * ln * ln + c4 / ln)
        return tot
    a, b = pub.GQRS_SIGMA[(flav, "tot")]
    return a * energy ** b


def _event_case(case):
    from pyrex import particle
    shape, shadow, model, bound = case["shape"], case["shadow"], case["model"], case["bound"]
    base = particle.CTWInteraction if model == "CTW" else particle.GQRSInteraction

    class M(base):
        include_secondaries = False
    energies = [1e4, 1e7, 1e10]
    state = {"k": 0}
    SHELLS, RADIUS = (pub.CMC_SHELLS, pub.CMC_RADIUS) if case.get("earth") == "cmc" else (pub.PREM_SHELLS, pub.PREM_RADIUS)

    def energy_fn():
        state["k"] += 1
        return energies[state["k"] % 3]
    rho_max = 13.1
    fails = []
    nontriv = []
    n = 0
    accepted_stats = {"rejected_throws": 0}

    def body(ch):
        state["k"] = 0
        e = energy_fn if case["energy"] == "callable" else case["energy"]
        kw_earth = {}
        if case.get("earth") == "cmc":
            from pyrex import earth_model
            kw_earth = {"earth_model": earth_model.CoreMantleCrustModel()}
        g, dims = _gen(shape, energy=e, shadow=shadow, flavor_ratio=tuple(case["ratio"]), source=case["source"], interaction_model=M,
                       **kw_earth)
        s = rng.ScriptSource(chooser=ch, lattice=MENU)
        try:
            with rng.owned(s):
                ev = g.create_event()
        except RecursionError:
            return ("recursion", None, g, s, dims)
        except Exception as ex_:
            if src.exception_origin(ex_) != "library":
                raise
            return ("exc", src.short_tb(ex_), g, s, dims)
        return ("ok", ev, g, s, dims)

    per_throw = (3 + 2 + 2 + (3 if model == "CTW" else 2) + (1 if shadow else 0))
    paths = [(choice.Chooser(case["choices"]), None)] if "choices" in case else None
    if paths:
        paths = [(paths[0][0], body(paths[0][0]))]
    else:
        paths = choice.explore(body, bound=bound, max_paths=500000)
    for ch, res in paths:
        n += 1
        tag = "%s shadow=%s %s E=%s ratio=%s %s draws=%s" % (shape, shadow, model, case["energy"], case["ratio"], case["source"], ch.choices)

        def fail(check, what, **tags):
            tags["group"] = check
            tags["shape"] = shape
            tags["volume"] = shape
            fails.append({"check": check, "what": "%s: %s" % (tag, what), "tags": tags, "size": ch.deviations,
                          "replay": dict(case, choices=ch.choices)})
        status, ev, g, s, dims = res
        if status == "exc":
            t_last = max(0, (len(s.log) - 1) // per_throw)
            dd = [v for _, v in s.log[t_last * per_throw:]]
            na = len(dd) >= 5 and _near_axis(_dir_from(dd[3], dd[4]))
            fail("event-exception", ev, exc=ev.split(":")[0], near_axis_direction=bool(na), where=ev.split("|")[1].split("<-")[0].strip() if "|" in ev else None)
            continue
        if status == "recursion":
            fail("event-recursion", "create_event recursed beyond the interpreter limit")
            continue
        ndraws = len(s.log)
        if ndraws % per_throw:
            fail("draw-count", "%d draws consumed, not a multiple of %d per throw" % (ndraws, per_throw))
            continue
        throws = ndraws // per_throw
        if g.count != throws:
            fail("count", "count=%d after %d throws (%d rejected)" % (g.count, throws, throws - 1))
        accepted_stats["rejected_throws"] += throws - 1
        roots = ev.roots
        if len(roots) != 1:
            fail("event-roots", "%d root particles" % len(roots))
            continue
        p = roots[0]
        draws = [v for _, v in s.log[(throws - 1) * per_throw:]]
        # the accepted throw is determined by its own draws
        if dims[0] == "cyl":
            _, dr, dz = dims
            r = dr * math.sqrt(draws[0])
            th = 2 * math.pi * draws[1]
            vtx = np.array([r * math.cos(th), r * math.sin(th), -dz * draws[2]])
        else:
            _, dx, dy, dz = dims
            vtx = np.array([-dx / 2 + dx * draws[0], -dy / 2 + dy * draws[1], -dz + dz * draws[2]])
        ct = 2 * draws[3] - 1
        st = math.sqrt(max(0.0, 1 - ct * ct))
        ph = 2 * math.pi * draws[4]
        dirn = np.array([st * math.cos(ph), st * math.sin(ph), ct])
        if not (np.allclose(p.vertex, vtx, rtol=0, atol=1e-9 * max(dims[1:])) and np.allclose(p.direction, dirn, rtol=0, atol=1e-12)):
            fail("event-geometry", "vertex %s direction %s do not follow from the draws (expected %s, %s)"
                 % (np.asarray(p.vertex).tolist(), np.asarray(p.direction).tolist(), vtx.tolist(), dirn.tolist()))
            continue
        E = p.energy
        if case["energy"] != "callable" and E != case["energy"]:
            fail("event-energy", "energy %r, configured %r" % (E, case["energy"]))
        if case["energy"] == "callable" and E != energies[throws % 3]:
            fail("event-energy", "energy %r is not the %d-th value of the supplied source" % (E, throws))
        pid = p.id.value
        # weights
        L_tot = 1.0 / (pub.N_A * _sigma_tot(model, pid, E))           # g/cm^2
        dist, X, jumps, rho_exit = ex.chord(vtx, -dirn, SHELLS, RADIUS)
        tolX = ex.slant_tolerance(dist, 500.0, rho_exit, jumps, X, rho_max) if dist > 0 else 0.0
        w_surv = math.exp(-X / L_tot)
        iv = geom.cylinder_interval(vtx, dirn, dims[1], dims[2]) if dims[0] == "cyl" else geom.box_interval(vtx, dirn, dims[1], dims[2], dims[3])
        on_edge = any(d in (0.0,) for d in draws[:3])
        if iv is None:
            fail("event-geometry", "vertex outside the volume")
            continue
        L_ice = L_tot / 0.92 / 100
        w_int = ((iv[1] - iv[0]) / L_ice) * math.exp(-(0 - iv[0]) / L_ice)
        got_int = p.interaction_weight
        # a vertex exactly on a face together with a direction parallel to that face within rounding is a tie that
        # depends on sub-ulp information (is the line 1e-15 m inside or outside the face?): not compared
        tie = on_edge and _near_axis(dirn)
        if not tie and not abs(got_int - w_int) <= 1e-8 * max(w_int, 1e-300) + 1e-300:
            fail("interaction-weight", "interaction weight %r, (chord/L) exp(-travel/L) = %r (chord %.6f m, travelled %.6f m, L %.6g m)"
                 % (got_int, w_int, iv[1] - iv[0], -iv[0], L_ice), vertex_on_boundary=bool(on_edge), near_axis_direction=_near_axis(dirn))
        if shadow:
            if p.survival_weight != 1:
                fail("survival-weight", "shadowed generator: survival weight %r, expected 1" % p.survival_weight)
            u = draws[-1]
            band = tolX / L_tot * w_surv + 1e-9
            if u >= w_surv + band:
                fail("shadow-accept", "event accepted although the shadow draw %r >= survival weight %r" % (u, w_surv))
            # rejected throws must have had u >= their survival weight: checked through the count/draw bookkeeping above and
            # by re-deriving every rejected throw below
            for t in range(throws - 1):
                dd = [v for _, v in s.log[t * per_throw:(t + 1) * per_throw]]
                if dims[0] == "cyl":
                    r_ = dims[1] * math.sqrt(dd[0])
                    vt = np.array([r_ * math.cos(2 * math.pi * dd[1]), r_ * math.sin(2 * math.pi * dd[1]), -dims[2] * dd[2]])
                else:
                    vt = np.array([-dims[1] / 2 + dims[1] * dd[0], -dims[2] / 2 + dims[2] * dd[1], -dims[3] + dims[3] * dd[2]])
                c_ = 2 * dd[3] - 1
                s_ = math.sqrt(max(0.0, 1 - c_ * c_))
                dn = np.array([s_ * math.cos(2 * math.pi * dd[4]), s_ * math.sin(2 * math.pi * dd[4]), c_])
                # particle type of the rejected throw
                rr = np.array(case["ratio"], float) / sum(case["ratio"])
                fl = 0 if dd[5] < rr[0] else (1 if dd[5] < rr[0] + rr[1] else 2)
                nb = (0.78, 0.61, 0.61) if case["source"] == "cosmogenic" else (0.5, 0.5, 0.5)
                pid_t = [12, 14, 16][fl] * (1 if dd[6] < nb[fl] else -1)
                E_t = case["energy"] if case["energy"] != "callable" else energies[(t + 1) % 3]
                Lt = 1.0 / (pub.N_A * _sigma_tot(model, pid_t, E_t))
                dist_t, X_t, j_t, re_t = ex.chord(vt, -dn, SHELLS, RADIUS)
                w_t = math.exp(-X_t / Lt)
                b_t = (ex.slant_tolerance(dist_t, 500.0, re_t, j_t, X_t, rho_max) if dist_t > 0 else 0.0) / Lt * w_t + 1e-9
                if dd[-1] < w_t - b_t:
                    fail("shadow-reject", "throw %d was rejected although its shadow draw %r < survival weight %r" % (t, dd[-1], w_t))
        else:
            got = p.survival_weight
            if X / L_tot > 600:
                if not (0 <= got <= 1e-250):
                    fail("survival-weight", "survival weight %r, exp(-X/L) underflows (X/L = %.4g)" % (got, X / L_tot))
            elif not abs(math.log(max(got, 1e-300)) - (-X / L_tot)) <= tolX / L_tot + 1e-9:
                fail("survival-weight", "survival weight %r, exp(-X/L) = %r with X = %.6g g/cm^2 (tolerance on X %.3g), L = %.6g"
                     % (got, w_surv, X, tolX, L_tot))
        nontriv.append("ev|%s|%s|%s|%s" % (shape, shadow, model, ch.choices))
    return {"n": n, "nontrivial": nontriv, "fails": fails, "stats": accepted_stats,
            "sample": {"shape": shape, "shadow": shadow, "model": model, "energy": case["energy"], "deviation_bound": bound, "paths": n}}


# ---- list generator ------------------------------------------------------------------------------------------
def _list_case(case):
    from pyrex import generation
    from pyrex.particle import Particle, Event, Interaction
    loop = case["loop"]
    fails_all = []
    states = trans = 0
    nontriv = []
    for nev in (1, 2, 3):
        def factory(nev=nev):
            ps = [Particle(12, (0, 0, -10.0 * (i + 1)), (0, 0, 1), 1e6, interaction_model=Interaction) for i in range(nev)]
            items = [ps[0]] + [Event(p) for p in ps[1:]]         # mixture of bare particles and events
            g = generation.ListGenerator(items if nev > 1 else ps[0], loop=loop)
            return {"g": g, "ps": ps, "calls": 0, "offset": None, "since": 0, "note": None, "stopped": False}

        def step(st, a):
            g = st["g"]
            st["note"] = None
            if a[0] == "create":
                try:
                    ev = g.create_event()
                except StopIteration:
                    if loop or st["calls"] < nev:
                        st["note"] = ("list-stop", "StopIteration after %d of %d events (loop=%s)" % (st["calls"], nev, loop))
                    st["stopped"] = True
                    return st
                if not loop and st["calls"] >= nev:
                    st["note"] = ("list-stop", "event returned after the list was exhausted (loop=False)")
                want = st["ps"][st["calls"] % nev]
                roots = getattr(ev, "roots", None)
                if roots is None or len(roots) != 1 or roots[0] is not want:
                    st["note"] = ("list-order", "call %d returned the wrong event" % (st["calls"] + 1))
                st["calls"] += 1
                st["since"] += 1
            else:
                g.count = a[1]
                st["offset"] = a[1]
                st["since"] = 0
            return st

        def check(st, hist, a):
            out = []
            if st["note"]:
                out.append({"check": st["note"][0], "what": st["note"][1]})
            want = st["calls"] if st["offset"] is None else st["offset"] + st["since"]
            if st["g"].count != want:
                out.append({"check": "list-count", "what": "count=%r, expected %r" % (st["g"].count, want)})
            return out
        actions = [("create",), ("setcount", 10), ("setcount", 0)]
        res = graph.bfs([("n%d" % nev, factory)], actions, step, check,
                        lambda st: (st["calls"], st["offset"], st["since"], st["stopped"]), max_depth=nev + 2,
                        rebuild=lambda f, h: _replay_list(f, h, step))
        states += res.states
        trans += res.transitions
        nontriv += ["list|%s|%d|%d" % (loop, nev, i) for i in range(res.states)]
        for hist, f in res.failures:
            f = dict(f)
            f["what"] = "ListGenerator(%d events, loop=%s) history %s: %s" % (nev, loop, list(hist[1:]), f["what"])
            f["tags"] = {"group": f["check"]}
            fails_all.append(f)
    return {"n": trans, "nontrivial": nontriv, "fails": fails_all, "states": states, "transitions": trans,
            "sample": {"loop": loop, "list_lengths": [1, 2, 3]}}


def _replay_list(factory, hist, step):
    st = factory()
    for a in hist:
        st = step(st, a)
    return st


def evaluate(case):
    k = case["kind"]
    return {"vertex": _vertex_case, "direction": _direction_case, "flavour": _flavour_case, "exit": _exit_case,
            "event": _event_case, "list": _list_case}[k](case)
