"""C14 -- interactions conserve energy; cross sections consistent; event trees well formed.

(i) lattices over the random draws of choose_interaction / choose_inelasticity (full product on the K-point
    midpoint lattice + the end value 0.0) under OwnedRandom, for 6 neutrino types x 2 models x energies x kinds;
(ii) choice tree over the draws of the secondary-interaction loop (poisson menus, u menus, deviation bound 3);
(iii) energy ladder for the cross sections;
(iv) explicit-state BFS over add_children histories (every tree shape up to 7 particles).
"""
import itertools
import math

import numpy as np

from ..engine import choice, graph, rng, src
from ..oracles import published as pub

PID = "C14"
LEVEL = "exploration"
RULE = ("(i) 6 neutrino types x {GQRS, CTW} x 7 energies x {forced CC, forced NC, chosen}: the kind draw on the K+1 lattice and the "
        "inelasticity draws as a full product on the lattice; (ii) secondaries: choice tree with poisson menu {0,1,2} and u menu "
        "{default,0.0,0.05,0.5,0.95} at every draw, deviation bound 3; (iii) 40-points-per-decade energy ladder 1e3..1e12 GeV; "
        "(iv) BFS over add_children(parent_i, 1|2 children) to 7 particles for 1 and 2 roots; distinct_nontrivial = distinct "
        "(type, model, energy, kind, draws) interactions + distinct tree shapes")
ASSUMPTIONS = ["published constants re-entered in oracles/published.py from CTW 2011 and GQRS 1998 / the documented AraSim parametrisation",
               "inelasticity is checked against the numerically integrated published density (CDF(y(u)) == u), not the closed-form inverse",
               "distributional claims are verified as exact statements about the map from the uniform variates to the outputs"]
CHUNK = 1

TYPES = [12, -12, 14, -14, 16, -16]
ENERGIES = [1e3, 10 ** 4.5, 1e6, 10 ** 7.5, 1e9, 10 ** 10.5, 1e12]
_GLX, _GLW = np.polynomial.legendre.leggauss(96)


def _lattice(K):
    return [0.0] + [(i + 0.5) / K for i in range(K)]


def cases(tier, seed):
    K = 16 if tier == "quick" else 128
    out = []
    for model in ("GQRS", "CTW"):
        for pid in TYPES:
            for e in ENERGIES:
                out.append({"kind": "draws", "model": model, "pid": pid, "energy": e, "K": K})
    for pid in (14, -14, 16, -16):
        for e in (1e3, 1e9, 1e12):
            out.append({"kind": "secondaries", "pid": pid, "energy": e, "bound": 2 if tier == "quick" else 4})
    for model in ("GQRS", "CTW"):
        for pid in TYPES:
            out.append({"kind": "sigma", "model": model, "pid": pid})
    out.append({"kind": "tree", "roots": 1, "max": 6 if tier == "quick" else 7})
    out.append({"kind": "tree", "roots": 2, "max": 6 if tier == "quick" else 7})
    return out


def _model(name):
    from pyrex import particle
    return particle.GQRSInteraction if name == "GQRS" else particle.CTWInteraction


def _make(model, pid, energy, kind, draws, secondaries=False, source=None):
    from pyrex import particle
    cls = _model(model)

    class M(cls):
        include_secondaries = secondaries
    src_ = source or rng.ScriptSource(script=dict(enumerate(draws)))
    with rng.owned(src_):
        p = particle.Particle(pid, vertex=(0, 0, -100), direction=(0, 0, 1), energy=energy,
                              interaction_model=M, interaction_type=kind)
    return p, src_


# ---- published distributions ---------------------------------------------------------------------------
def _ctw_c1c2(pid, kind_cc, low, eps):
    if low:
        a = pub.CTW_Y_A["low"]
    elif kind_cc:
        a = pub.CTW_Y_A[("nu" if pid > 0 else "nubar", "cc")]
    else:
        a = pub.CTW_Y_A["nc"]
    c1 = a[0] - a[1] * math.exp(-(eps - a[2]) / a[3])
    c2 = pub.CTW_Y_B[0] + pub.CTW_Y_B[1] * eps
    return c1, c2


def _ctw_cdf(y, pid, kind_cc, low, eps):
    """CDF of the published density restricted to its region, by numerical integration"""
    c1, c2 = _ctw_c1c2(pid, kind_cc, low, eps)
    lo, hi = pub.CTW_Y_REGIONS["low" if low else "high"]

    def integral(a, b):
        # integrate in s = ln(y - c1) for accuracy: dy = e^s ds
        sa, sb = math.log(a - c1), math.log(b - c1)
        s = 0.5 * (sa + sb) + 0.5 * (sb - sa) * _GLX
        yy = np.exp(s)                      # = y - c1
        dens = yy ** (-1.0 / c2) if low else 1.0 / yy
        return 0.5 * (sb - sa) * float(_GLW @ (dens * yy))
    return integral(lo, y) / integral(lo, hi)


def _draw_case(case):
    model, pid, energy, K = case["model"], case["pid"], case["energy"], case["K"]
    from pyrex.particle import Interaction
    T = Interaction.Type
    lat = _lattice(K)
    eps = math.log10(energy)
    fails = []
    nontriv = []
    n = 0
    flav = "nu" if pid > 0 else "nubar"

    def fail(check, what, **tags):
        tags.update(model=model, pid=pid, group=check)
        fails.append({"check": check, "what": "%s pid=%d E=%g: %s" % (model, pid, energy, what), "tags": tags})

    # (a) kind == (u < published fraction)
    if model == "GQRS":
        cc_if = lambda u: u < pub.GQRS_CC_FRACTION
    else:
        d0, d1, d2 = pub.CTW_NC_FRACTION
        ncf = d1 + d2 * math.log(eps - d0)
        cc_if = lambda u: not (u < ncf)
    thr = pub.GQRS_CC_FRACTION if model == "GQRS" else ncf
    # one lattice point just either side of every published threshold (boundary values)
    for u in lat + [v for v in (thr * (1 - 2.0 ** -30), thr * (1 + 2.0 ** -30)) if 0.0 <= v < 1.0]:
        n += 1
        p, s = _make(model, pid, energy, None, [u])
        got_cc = p.interaction.kind == T.charged_current
        if p.interaction.kind not in (T.charged_current, T.neutral_current):
            fail("kind", "kind draw u=%r gave %r" % (u, p.interaction.kind))
        elif got_cc != cc_if(u):
            fail("kind", "kind draw u=%r gave %s, published fraction says %s" % (u, p.interaction.kind.name, "CC" if cc_if(u) else "NC"), u=u)
    # (b) inelasticity and fractions for forced CC / forced NC / chosen (default draw)
    ndraw = 1 if model == "GQRS" else 2
    for kind in ("cc", "nc", None):
        pre = [] if kind is not None else [0.5 if model == "GQRS" else 0.9]   # chosen: one leading kind draw
        if model == "CTW":
            f0_ = pub.CTW_LOW_Y_FRACTION[0] * math.sin(pub.CTW_LOW_Y_FRACTION[1] * (eps - pub.CTW_LOW_Y_FRACTION[2]))
            edge = [v for v in (f0_ * (1 - 2.0 ** -30), f0_ * (1 + 2.0 ** -30)) if 0.0 <= v < 1.0]
            combos = list(itertools.product(lat + edge, lat))
        else:
            combos = list(itertools.product(lat, repeat=ndraw))
        for ds in combos:
            n += 1
            try:
                p, s = _make(model, pid, energy, kind, pre + list(ds))
            except Exception as e:
                if src.exception_origin(e) != "library":
                    raise
                fail("exception", "draws %r kind %r: %s" % (ds, kind, src.short_tb(e)), draws=list(ds), u_is_zero=(0.0 in ds))
                continue
            it = p.interaction
            y, em, had = float(it.inelasticity), float(it.em_frac), float(it.had_frac)
            is_cc = it.kind == T.charged_current
            key = "%s|%d|%g|%s|%s" % (model, pid, energy, kind, ds)
            nontriv.append(key)
            if not (0.0 <= y <= 1.0):
                fail("y-range", "inelasticity %r outside [0,1] for draws %r" % (y, ds), draws=list(ds))
                continue
            if not (em >= 0 and had >= 0 and em + had <= 1 + 2 ** -52):
                fail("fractions", "em=%r had=%r for y=%r" % (em, had, y), draws=list(ds))
            if is_cc and abs(pid) == 12 and not abs(em + had - 1) <= 2 ** -52:
                fail("fractions-nue-cc", "nu_e CC: em+had = %r" % (em + had), draws=list(ds))
            if is_cc and abs(pid) == 12 and not (had == y):
                fail("fractions-nue-cc", "nu_e CC: had=%r but y=%r" % (had, y), draws=list(ds))
            if not is_cc and not (em == 0 and had == y):
                fail("fractions-nc", "NC: (em, had)=(%r, %r), y=%r" % (em, had, y), draws=list(ds))
            if is_cc and abs(pid) in (14, 16) and not (em == 0 and had == y):
                fail("fractions-numu-cc", "CC without secondaries: (em, had)=(%r, %r), y=%r" % (em, had, y), draws=list(ds))
            # distribution: CDF of the published density at y equals the draw
            if model == "GQRS":
                u = ds[0]
                r1 = 1 / math.e
                back = (math.exp(-y ** 0.4) - r1) / (1 - r1)
                if not abs(back - u) <= 1e-12:
                    fail("y-distribution", "y=%r is not the published transform of u=%r (inverse gives %r)" % (y, u, back), u=u)
            else:
                u_low, r = ds
                f0 = pub.CTW_LOW_Y_FRACTION[0] * math.sin(pub.CTW_LOW_Y_FRACTION[1] * (eps - pub.CTW_LOW_Y_FRACTION[2]))
                low = u_low < f0
                lo, hi = pub.CTW_Y_REGIONS["low" if low else "high"]
                if not (lo - 1e-15 <= y <= hi + 1e-15):
                    fail("y-region", "low-y draw %r (f0=%.4f) but y=%r outside [%g,%g]" % (u_low, f0, y, lo, hi), draws=list(ds))
                    continue
                if y <= lo or y >= hi:
                    cdf = 0.0 if y <= lo else 1.0
                else:
                    cdf = _ctw_cdf(y, pid, is_cc, low, eps)
                if not abs(cdf - r) <= 1e-9:
                    fail("y-distribution", "CDF of the published density at y=%r is %r, draw was %r (%s-y region, %s)"
                         % (y, cdf, r, "low" if low else "high", "CC" if is_cc else "NC"), draws=list(ds))
    return {"n": n, "nontrivial": nontriv, "fails": fails,
            "sample": {"model": model, "pid": pid, "energy": energy, "lattice": lat[:4]}}


def _secondary_case(case):
    """GQRS/CTW with secondaries on: every draw is a choice point (poisson menu {0,1,2}; u menu), deviation bound d."""
    pid, energy, bound = case["pid"], case["energy"], case["bound"]
    from pyrex.particle import Interaction
    T = Interaction.Type
    fails = []
    nontriv = []
    n = 0
    outcomes = set()
    for model in ("GQRS", "CTW"):
        def body(ch, model=model):
            s = rng.ScriptSource(chooser=ch, lattice=[0.0, 0.05, 0.5, 0.95])
            s.poisson_menu = [0, 1, 2]
            try:
                p, _ = _make(model, pid, energy, "cc", [], secondaries=True, source=s)
            except Exception as e:
                if src.exception_origin(e) != "library":
                    raise
                return ("exc", src.short_tb(e), list(s.log))
            return ("ok", p, list(s.log))
        for ch, res in choice.explore(body, bound=bound, max_paths=400000):
            n += 1
            if res[0] == "exc":
                zero = any(v == 0.0 and lab != "poisson" for lab, v in res[2][:2])
                fails.append({"check": "secondaries-exception",
                              "what": "%s pid=%d E=%g CC with secondaries, draws %s: %s" % (model, pid, energy, res[2], res[1]),
                              "tags": {"model": model, "pid": pid, "group": "secondaries-exception",
                                       "inelasticity_draw_zero": bool(zero and model == "GQRS"), "exc": res[1].split(":")[0]},
                              "size": ch.deviations, "replay": dict(case, choices=ch.choices, model=model)})
                continue
            it = res[1].interaction
            y, em, had = float(it.inelasticity), float(it.em_frac), float(it.had_frac)
            outcomes.add((round(em, 12), round(had, 12)))
            nontriv.append("sec|%s|%d|%g|%s" % (model, pid, energy, ch.choices))
            if not (em >= 0 and had >= 0 and em + had <= 1 + 2 ** -52 and 0 <= y <= 1):
                fails.append({"check": "secondaries-fractions",
                              "what": "%s pid=%d E=%g draws %s: em=%r had=%r y=%r" % (model, pid, energy, res[2], em, had, y),
                              "tags": {"model": model, "pid": pid, "group": "secondaries-fractions"},
                              "size": ch.deviations, "replay": dict(case, choices=ch.choices, model=model)})
    return {"n": n, "nontrivial": nontriv, "fails": fails, "stats": {"distinct_fraction_outcomes": len(outcomes)},
            "sample": {"pid": pid, "energy": energy, "deviation_bound": bound, "paths": n}}


def _sigma_case(case):
    model, pid = case["model"], case["pid"]
    fails = []
    nontriv = []
    n = 0
    flav = "nu" if pid > 0 else "nubar"
    prev = {}
    ladder = [10 ** (3 + k / 40.0) for k in range(0, 9 * 40 + 1)]
    reused = {}
    for e in ladder:
        for kind in ("cc", "nc"):
            n += 1
            p, _ = _make(model, pid, e, kind, [0.5, 0.5, 0.5, 0.5, 0.5, 0.5])
            it = p.interaction
            sig, tot = float(it.cross_section), float(it.total_cross_section)
            # one particle object scanned through the energies by assigning its public `energy` attribute: same answers
            if kind not in reused:
                reused[kind] = _make(model, pid, ladder[0], kind, [0.5, 0.5, 0.5, 0.5, 0.5, 0.5])[0]
            reused[kind].energy = e
            rs, rt_ = float(reused[kind].interaction.cross_section), float(reused[kind].interaction.total_cross_section)
            if rs != sig or rt_ != tot:
                fails.append({"check": "sigma-reused-particle", "what": "%s pid=%d %s: a particle whose energy was re-assigned to %g reports "
                                                                        "sigma=%r / total %r, a new particle %r / %r" % (model, pid, kind, e, rs, rt_, sig, tot),
                              "tags": {"model": model, "pid": pid, "group": "sigma-reused-particle"}})
            L, Lt = float(it.interaction_length), float(it.total_interaction_length)
            eps = math.log10(e)
            if model == "CTW":
                c0, c1, c2, c3, c4 = pub.CTW_SIGMA[(flav, kind)]
                ln = math.log(eps - c0)
                want = 10 ** (c1 + c2 * ln + c3 * ln * ln + c4 / ln)
                wt = 0.0
                for k2 in ("cc", "nc"):
                    c0, c1, c2, c3, c4 = pub.CTW_SIGMA[(flav, k2)]
                    ln = math.log(eps - c0)
                    wt += 10 ** (c1 + c2 * ln + c3 * ln * ln + c4 / ln)
            else:
                a, b = pub.GQRS_SIGMA[(flav, kind)]
                want = a * e ** b
                a, b = pub.GQRS_SIGMA[(flav, "tot")]
                wt = a * e ** b
            tags = {"model": model, "pid": pid, "group": "sigma"}
            if not (sig > 0 and tot > 0 and math.isfinite(sig)):
                fails.append({"check": "sigma-positive", "what": "%s pid=%d E=%g %s: sigma=%r total=%r" % (model, pid, e, kind, sig, tot), "tags": tags})
                continue
            if not abs(sig - want) <= 1e-10 * want:
                fails.append({"check": "sigma-published", "what": "%s pid=%d E=%g %s: sigma=%r published %r" % (model, pid, e, kind, sig, want), "tags": tags})
            if not abs(tot - wt) <= 1e-10 * wt:
                fails.append({"check": "sigma-published", "what": "%s pid=%d E=%g: total sigma=%r published %r" % (model, pid, e, tot, wt), "tags": tags})
            if (kind, "s") in prev and not sig > prev[(kind, "s")]:
                fails.append({"check": "sigma-monotone", "what": "%s pid=%d %s: sigma(%g)=%r <= sigma at the previous ladder point %r"
                                                                 % (model, pid, kind, e, sig, prev[(kind, "s")]), "tags": tags})
            prev[(kind, "s")] = sig
            if not abs(L - 1 / (pub.N_A * sig)) <= 1e-12 / (pub.N_A * sig) or not abs(Lt - 1 / (pub.N_A * tot)) <= 1e-12 / (pub.N_A * tot):
                fails.append({"check": "interaction-length", "what": "%s pid=%d E=%g: L=%r, 1/(N_A sigma)=%r" % (model, pid, e, L, 1 / (pub.N_A * sig)), "tags": tags})
            prev[kind] = sig
            nontriv.append("sigma|%s|%d|%s|%r" % (model, pid, kind, e))
        if model == "CTW":
            s_cc, s_nc = prev["cc"], prev["nc"]
            if not abs(s_cc + s_nc - tot) <= 1e-12 * tot:
                fails.append({"check": "sigma-sum", "what": "CTW pid=%d E=%g: CC+NC=%r total=%r" % (pid, e, s_cc + s_nc, tot),
                              "tags": {"model": model, "pid": pid, "group": "sigma-sum"}})
    return {"n": n, "nontrivial": nontriv, "fails": fails, "sample": {"model": model, "pid": pid, "ladder_points": len(ladder)}}


# ---- event trees --------------------------------------------------------------------------------------------
class _TreeState:
    def __init__(self, nroots):
        from pyrex.particle import Particle, Event, Interaction
        self.P = lambda: Particle(12, (0, 0, -1), (0, 0, 1), 1e6, interaction_model=Interaction)
        self.parts = [self.P() for _ in range(nroots)]
        self.event = Event(self.parts[0] if nroots == 1 else list(self.parts))
        self.parent = [None] * nroots        # reference model: parent index per particle


def _tree_step(st, a):
    i, k, maxn = a
    if i >= len(st.parts) or len(st.parts) + k > maxn:
        return None
    kids = [st.P() for _ in range(k)]
    st.event.add_children(st.parts[i], kids[0] if k == 1 else kids)
    st.parts.extend(kids)
    st.parent.extend([i] * k)
    return st


def _tree_check(st, hist, a):
    fails = _tree_assert(st)
    if not fails and len(hist) > 1:
        # the same history with every query asked after every step (queries are part of an event's life: whatever they
        # remember must follow the tree as it grows)
        st2 = _TreeState(len([p for p in st.parent if p is None]))
        for a_ in hist[1:]:
            _tree_assert(st2)
            st2 = _tree_step(st2, a_)
        for f in _tree_assert(st2):
            f = dict(f)
            f["what"] += " (queries were also made after every earlier add_children)"
            f["check"] += "-after-queries"
            fails.append(f)
    return fails


def _tree_assert(st):
    ev, parts, parent = st.event, st.parts, st.parent
    fails = []
    it = list(ev)
    if len(it) != len(parts) or len(ev) != len(parts) or set(map(id, it)) != set(map(id, parts)) or len(set(map(id, it))) != len(it):
        fails.append({"check": "tree-iteration", "what": "iteration yields %d particles (%d distinct), %d were added" % (len(it), len(set(map(id, it))), len(parts))})
        return fails
    for j, p in enumerate(parts):
        want_children = [parts[c] for c in range(len(parts)) if parent[c] == j]
        got = ev.get_children(p)
        if [id(x) for x in got] != [id(x) for x in want_children]:
            fails.append({"check": "tree-children", "what": "get_children(particle %d) returns %d particles, expected indices %s"
                                                            % (j, len(got), [c for c in range(len(parts)) if parent[c] == j])})
        gp = ev.get_parent(p)
        want_parent = None if parent[j] is None else parts[parent[j]]
        if gp is not want_parent:
            fails.append({"check": "tree-parent", "what": "get_parent(particle %d) is not particle %r" % (j, parent[j])})
    level = [j for j in range(len(parts)) if parent[j] is None]
    lv = 0
    while level:
        got = ev.get_from_level(lv)
        if sorted(map(id, got)) != sorted(id(parts[j]) for j in level) or len(got) != len(level):
            fails.append({"check": "tree-level", "what": "get_from_level(%d) returns %d particles, expected %s" % (lv, len(got), level)})
        level = [j for j in range(len(parts)) if parent[j] in level]
        lv += 1
    if len(ev.get_from_level(lv)) != 0:
        fails.append({"check": "tree-level", "what": "get_from_level(%d) beyond the deepest level is not empty" % lv})
    return fails


def _tree_case(case):
    maxn = case["max"]
    actions = [(i, k, maxn) for i in range(maxn) for k in (1, 2)]

    def rebuild(factory, hist):
        st = factory()
        for a in hist:
            st = _tree_step(st, a)
        return st
    res = graph.bfs([("roots%d" % case["roots"], lambda: _TreeState(case["roots"]))], actions, _tree_step, _tree_check,
                    lambda st: tuple(st.parent), max_depth=maxn, rebuild=rebuild,
                    enabled=lambda st, a: a[0] < len(st.parts) and len(st.parts) + a[1] <= maxn)
    fails = []
    for hist, f in res.failures:
        f = dict(f)
        f["what"] = "%d root(s), add_children history %s: %s" % (case["roots"], [(a[0], a[1]) for a in hist[1:]], f["what"])
        f["tags"] = {"group": f["check"]}
        f["size"] = len(hist)
        fails.append(f)
    return {"n": res.transitions, "nontrivial": ["tree|%d|%d" % (case["roots"], i) for i in range(res.states)], "fails": fails,
            "states": res.states, "transitions": res.transitions,
            "stats": {"tree_states": res.states, "tree_transitions": res.transitions},
            "sample": res.samples[0] if res.samples else None}


def evaluate(case):
    k = case["kind"]
    if k == "draws":
        return _draw_case(case)
    if k == "secondaries":
        if "choices" in case:       # replay of one path
            return _secondary_replay(case)
        return _secondary_case(case)
    if k == "sigma":
        return _sigma_case(case)
    return _tree_case(case)


def _secondary_replay(case):
    ch = choice.Chooser(case["choices"])
    s = rng.ScriptSource(chooser=ch, lattice=[0.0, 0.05, 0.5, 0.95])
    s.poisson_menu = [0, 1, 2]
    fails = []
    try:
        p, _ = _make(case["model"], case["pid"], case["energy"], "cc", [], secondaries=True, source=s)
        it = p.interaction
        if not (it.em_frac >= 0 and it.had_frac >= 0 and it.em_frac + it.had_frac <= 1 + 2 ** -52):
            fails.append({"check": "secondaries-fractions", "what": "em=%r had=%r" % (it.em_frac, it.had_frac)})
    except Exception as e:
        if src.exception_origin(e) != "library":
            raise
        fails.append({"check": "secondaries-exception", "what": src.short_tb(e)})
    return {"n": 1, "nontrivial": [], "fails": fails}
