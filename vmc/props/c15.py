"""C15 -- Earth density equals the published piecewise profile; slant depth equals its chord integral.

Exhaustive lattices: radii (each shell boundary, +-1 ulp, +-1 m, midpoints, 0, negative, >= R; scalar
and array) and chords (depth x horizontal offset x nadir angle ladder incl. tangential x azimuth x
|direction| x step).  Azimuth rotation and direction rescaling act as the transition relation.
"""
import math

import numpy as np

from ..oracles import earth as ex
from ..oracles import published as pub

PID = "C15"
LEVEL = "exploration"
RULE = ("both Earth models x {radius lattice with one point per shell-edge case split, as scalar and as one array} and "
        "x {endpoint depth x (x,y) offset x nadir-angle ladder x azimuth x |direction| x integration step}; "
        "distinct_nontrivial = distinct (model, endpoint, direction, step) chords with non-zero exact column depth, "
        "plus distinct radii inside the Earth")
ASSUMPTIONS = ["reference densities transcribed from Dziewonski & Anderson 1981 Table 1 / the documented three-shell model",
               "exact chord integral = shell-crossing split + 64-point Gauss-Legendre per piece",
               "tolerance = 110*h*(rho_exit/2 + sum of density jumps crossed) + second-order term, h = actual sample spacing; "
               "110*step*rho_max for chords shorter than one step (the integrator then returns 0)"]

NADIR = [0, 10, 20, 30, 40, 50, 60, 70, 80, 85, 88, 89, 89.5, 89.9, 90, 90.1, 90.5, 91, 95, 120, 150, 180]
AZIM = [0, 90, 180, 270, 37]
DEPTHS = [100.0, 0.0, -1.0, -100.0, -1000.0, -3000.0]
OFFSETS = [(0.0, 0.0), (1000.0, -2000.0)]
NORMS = [1.0, 7.5, 2.0 ** -33, 2.0 ** 30]      # "independent of the length of the direction vector": also very short and very long ones


def cases(tier, seed):
    steps = [500, 125] if tier == "quick" else [500, 250, 125, 50]
    out = []
    for model in ("prem", "cmc"):
        out.append({"kind": "density", "model": model})
        for depth in DEPTHS:
            for off in OFFSETS:
                out.append({"kind": "chords", "model": model, "depth": depth, "offset": list(off), "steps": steps})
    return out


def _model(name):
    from pyrex import earth_model
    if name == "prem":
        return earth_model.PREM(), pub.PREM_SHELLS, pub.PREM_RADIUS
    return earth_model.CoreMantleCrustModel(), pub.CMC_SHELLS, pub.CMC_RADIUS


def _density_case(case):
    m, shells, R = _model(case["model"])
    fails = []
    radii = [0.0, -1.0, -1e6, R, R + 1.0, 2 * R, np.nextafter(R, 0), np.nextafter(R, 2 * R)]
    lower = 0.0
    for upper, _ in shells:
        radii += [upper, np.nextafter(upper, 0), np.nextafter(upper, 2 * upper), upper - 1.0, upper + 1.0,
                  0.5 * (lower + upper), lower + 0.25 * (upper - lower)]
        lower = upper
    radii = sorted(set(float(r) for r in radii))
    n = 0
    nontriv = []
    given = np.array(radii, dtype=np.float64)
    arr = np.asarray(m.density(given))
    # the radii handed in are the caller's: they stay as they were, and asking again gives the same densities
    again = np.asarray(m.density(given))
    if not np.array_equal(given, np.array(radii, dtype=np.float64)) or not np.array_equal(arr, again, equal_nan=True):
        fails.append({"check": "density-argument-modified", "what": "%s density(array) changed the array it was given, or a second call "
                                                                    "with the same array answers differently" % case["model"],
                      "tags": {"group": "density-argument-modified"}})
    if arr.shape != (len(radii),):
        fails.append({"check": "density-shape", "what": "density(array of %d) has shape %r" % (len(radii), arr.shape)})
        arr = None
    for i, r in enumerate(radii):
        n += 1
        want = ex.density(r, shells, R)
        got = m.density(r)
        if np.ndim(got) != 0:
            fails.append({"check": "density-shape", "what": "density(scalar %r) returned shape %r" % (r, np.shape(got)), "tags": {"r": r}})
            continue
        got = float(got)
        if not abs(got - want) <= 1e-12 * max(1.0, abs(want)):
            fails.append({"check": "density-value", "what": "%s density(%r) = %r, reference profile %r" % (case["model"], r, got, want),
                          "tags": {"r": r, "group": "density-value"}})
        if arr is not None and float(arr[i]) != got:
            fails.append({"check": "density-scalar-vs-array", "what": "density(%r): scalar %r, array element %r" % (r, got, float(arr[i])),
                          "tags": {"r": r}})
        if want > 0:
            nontriv.append("%s|r|%r" % (case["model"], r))
    # the same radius given with an integer type (Python int, integer array, list of ints) is the same radius
    ints = [int(r) for r in radii if float(r).is_integer()]
    want = [ex.density(float(r), shells, R) for r in ints]
    for label, arg in (("int64 array", np.array(ints, dtype=np.int64)), ("list of ints", list(ints))):
        n += 1
        got = np.asarray(m.density(arg), dtype=float)
        if got.shape != (len(ints),) or not np.all(np.abs(got - np.array(want)) <= 1e-12 * np.maximum(1.0, np.abs(want))):
            fails.append({"check": "density-int-input", "what": "%s density(%s %r) = %r, reference profile %r"
                                                                % (case["model"], label, ints, got.tolist(), want),
                          "tags": {"group": "density-int-input", "input": label}})
    for r, w in zip(ints, want):
        n += 1
        got = m.density(r)
        if np.ndim(got) != 0 or not abs(float(got) - w) <= 1e-12 * max(1.0, abs(w)):
            fails.append({"check": "density-int-input", "what": "%s density(int %d) = %r, reference profile %r" % (case["model"], r, got, w),
                          "tags": {"group": "density-int-input", "input": "int", "r": r}})
    return {"n": n, "nontrivial": nontriv, "fails": fails, "sample": {"model": case["model"], "radii": radii[:8]}}


def _dir(nadir_deg, az_deg, norm):
    th = math.radians(nadir_deg)
    az = math.radians(az_deg)
    s = {0: 0.0, 90: 1.0, 180: 0.0}.get(nadir_deg, math.sin(th))     # exact at the axes: 90 degrees is exactly horizontal
    # exact values on the axes so that 90-degree azimuth steps are exact rotations
    ca = {0: 1.0, 90: 0.0, 180: -1.0, 270: 0.0}.get(az_deg, math.cos(az))
    sa = {0: 0.0, 90: 1.0, 180: 0.0, 270: -1.0}.get(az_deg, math.sin(az))
    return np.array([s * ca, s * sa, -{0: 1.0, 90: 0.0, 180: -1.0}.get(nadir_deg, math.cos(th))]) * norm, (ca, sa)


def _chord_case(case):
    m, shells, R = _model(case["model"])
    depth = case["depth"]
    x0, y0 = case["offset"]
    fails = []
    nontriv = []
    n = 0
    max_ratio = 0.0
    rho_max = max(max(abs(c[0]), abs(c[0] + c[1] + c[2] + c[3])) for _, c in shells)
    worst = {}
    for step in case["steps"]:
        prev = None
        for nad in NADIR:
            base_val = None
            for az in AZIM:
                for norm in NORMS:
                    d, (ca, sa) = _dir(nad, az, norm)
                    # azimuth rotation acts on endpoint and direction together
                    ep = (x0 * ca - y0 * sa, x0 * sa + y0 * ca, depth)
                    n += 1
                    got = float(m.slant_depth(ep, d, step=step))
                    dist, exact, jumps, rho_exit = ex.chord(ep, d, shells, R)
                    if not math.isfinite(got) or got < 0:
                        fails.append(_fc("slant-finite", case, step, nad, az, norm, "slant_depth = %r" % got))
                        continue
                    if dist <= 0:
                        if got != 0:
                            fails.append(_fc("slant-miss", case, step, nad, az, norm,
                                             "chord does not enter the Earth but slant_depth = %r" % got))
                        continue
                    nst = int(dist / step) + (1 if dist % step else 0)
                    if nst <= 1:
                        tol = 110.0 * step * rho_max
                    else:
                        h = dist / (nst - 1)
                        tol = 110.0 * h * (rho_exit / 2 + sum(j for _, j in jumps)) + 100.0 * h * h * 2e-6 * (dist / h) * 0.1 + 1e-6 * exact
                    err = abs(got - exact)
                    max_ratio = max(max_ratio, err / tol)
                    if dist >= 4 * 500.0:     # convergence statistic over chords resolved by every step of the ladder
                        worst[step] = max(worst.get(step, 0.0), err / max(exact, 1.0))
                    if not err <= tol:
                        fails.append(_fc("slant-integral", case, step, nad, az, norm,
                                         "slant_depth = %.6f, exact chord integral %.6f, |err| %.4g > tol %.4g (distance %.1f m)"
                                         % (got, exact, err, tol, dist)))
                    if exact > 0:
                        nontriv.append("%s|%r|%r|%r|%r|%r|%r" % (case["model"], depth, x0, nad, az, norm, step))
                    # invariance under azimuth (exact for 90-degree steps) and |direction|
                    if base_val is None:
                        base_val = got
                    else:
                        # exact in real arithmetic; numerically a sample may flip across a density jump,
                        # so the discretisation slack applies unless no jump is crossed
                        rtol = 1e-12 if az in (0, 90, 180, 270) else 1e-9
                        if not abs(got - base_val) <= rtol * max(1.0, base_val) + (tol if (jumps or az not in (0, 90, 180, 270)) else 0.0):
                            fails.append(_fc("slant-invariance", case, step, nad, az, norm,
                                             "slant_depth %r differs from %r at azimuth 0, |direction| 1" % (got, base_val)))
            # monotone: deeper-dipping chords see more matter (within the discretisation slack)
            if base_val is not None:
                d0, _ = _dir(nad, 0, 1.0)
                dist, exact, jumps, rho_exit = ex.chord((x0, y0, depth), d0, shells, R)
                nst = max(2, int(dist / step) + 1) if dist > 0 else 2
                slack = 110.0 * (dist / (nst - 1) if dist > 0 else step) * (rho_exit / 2 + sum(j for _, j in jumps)) + 110.0 * step * rho_max * (dist < step)
                if prev is not None and x0 == 0 and y0 == 0 and not base_val <= prev[0] + slack + prev[1]:
                    fails.append(_fc("slant-monotone", case, step, nad, 0, 1.0,
                                     "slant depth grows from %r to %r although the chord dips less" % (prev[0], base_val)))
                prev = (base_val, slack)
    # one chord asked for with one step after another (a step-convergence study on the same model object): every answer is within
    # the discretisation error of ITS step
    for nad in (0, 40, 80, 89):
        d, _ = _dir(nad, 0, 1.0)
        ep = (x0, y0, depth)
        dist, exact, jumps, rho_exit = ex.chord(ep, d, shells, R)
        if dist <= 0:
            continue
        for step in (4000.0, 125.0, 4000.0, 500.0):
            n += 1
            got = float(m.slant_depth(ep, d, step=step))
            nst = int(dist / step) + (1 if dist % step else 0)
            if nst <= 1:
                tol = 110.0 * step * rho_max
            else:
                h = dist / (nst - 1)
                tol = 110.0 * h * (rho_exit / 2 + sum(j for _, j in jumps)) + 100.0 * h * h * 2e-6 * (dist / h) * 0.1 + 1e-6 * exact
            if not abs(got - exact) <= tol:
                fails.append(_fc("slant-step-sequence", case, step, nad, 0, 1.0,
                                 "asked for after the same chord with another step: slant_depth = %.6f, exact chord integral %.6f, |err| %.4g > tol %.4g"
                                 % (got, exact, abs(got - exact), tol)))
    stats = {"max_err_over_tol": max_ratio}
    for s, w in worst.items():
        stats["max_relerr_step%d" % s] = w
    return {"n": n, "nontrivial": nontriv, "fails": fails, "stats": stats,
            "sample": {"model": case["model"], "endpoint": [x0, y0, depth], "nadir_deg": NADIR[:5], "steps": case["steps"]}}


def _fc(check, case, step, nad, az, norm, what):
    return {"check": check, "what": "%s endpoint (%g,%g,%g) nadir %g deg azimuth %g |d|=%g step %g: %s"
                                    % (case["model"], case["offset"][0], case["offset"][1], case["depth"], nad, az, norm, step, what),
            "tags": {"model": case["model"], "nadir": nad, "step": step, "group": check},
            "size": int(nad)}


def post(cases_, results, tier):
    """convergence: lattice-wide worst relative error shrinks with the step"""
    agg = {}
    for r in results:
        for k, v in (r.get("stats") or {}).items():
            if k.startswith("max_relerr_step"):
                agg[int(k[len("max_relerr_step"):])] = max(agg.get(int(k[len("max_relerr_step"):]), 0.0), v)
    steps = sorted(agg, reverse=True)
    fails = []
    for a, b in zip(steps[:-1], steps[1:]):
        if not agg[b] <= agg[a] * 1.05 + 1e-12:
            fails.append({"check": "slant-convergence", "what": "worst relative error %.3g at step %d is not smaller than %.3g at step %d"
                                                                % (agg[b], b, agg[a], a)})
    return {"fails": fails, "coverage": {"worst_relative_error_by_step": {str(k): agg[k] for k in steps}}}


def evaluate(case):
    if case["kind"] == "density":
        return _density_case(case)
    return _chord_case(case)
