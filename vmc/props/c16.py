"""C16 -- ice models are self-consistent: index, inverse, gradient, ranges, attenuation shapes.

Exhaustive finite lattice: model x depth (one point per range case split: above the surface,
exactly on / one ulp-ish either side of each bound, inside, below) x frequency (either side of
the 1 GHz coefficient switch) x every scalar/array shape combination.
"""
import itertools
import math

import numpy as np

from ..engine import src

PID = "C16"
LEVEL = "exploration"
RULE = ("model x depth lattice x frequency lattice x shape combination (scalar, length-1 array, length-3 array for depth "
        "and for frequency, every ordered selection of 1 or 3 of the 7 frequencies with repetition x every order of the "
        "depth selection); distinct_nontrivial = distinct (model, check, depth/frequency point) evaluations that returned a "
        "finite value inside the valid range")
ASSUMPTIONS = ["gradient is compared with a central difference only inside the valid range",
               "attenuation positivity is demanded inside the valid depth range (below it ArasimIce extrapolates its table linearly)",
               "UniformIce/LayeredIce depth_with_index raise NotImplementedError by design"]

FREQS = [1e6, 1e8, 3e8, 1e9 * (1 - 2.0 ** -20), 1e9, 1e9 * (1 + 2.0 ** -20), 5e9]


def _models():
    from pyrex.ice_model import AntarcticIce, ArasimIce, GreenlandIce, UniformIce
    from pyrex.custom.layered_ice import LayeredIce
    m = {
        "antarctic": lambda: AntarcticIce(),
        "arasim": lambda: ArasimIce(),
        "greenland": lambda: GreenlandIce(),
        "antarctic_custom": lambda: AntarcticIce(n0=1.6, k=0.3, a=0.02, valid_range=(-1500, -10), index_above=1.2,
                                                 index_below=2.0),
        "antarctic_none": lambda: AntarcticIce(n0=1.9, k=0.5, a=0.008, valid_range=(-2000, 0), index_above=None,
                                               index_below=None),
        # a thin sheet: at its bottom the profile is still far from its asymptote n0
        "antarctic_shallow_none": lambda: AntarcticIce(valid_range=(-600, 0), index_below=None),
        # the valid range written top-first (the constructor normalises it)
        "uniform_reversed": lambda: UniformIce(1.6, valid_range=(0, -200), index_above=1.0, index_below=1.9),
        "uniform_1_None": lambda: UniformIce(1.5, valid_range=(-1000, 0), index_above=1, index_below=None),
        "uniform_None_None": lambda: UniformIce(1.78, valid_range=(-300, -100), index_above=None, index_below=None),
        "uniform_1_1.9": lambda: UniformIce(1.6, valid_range=(-800, 0), index_above=1, index_below=1.9),
        # integer-typed parameters with non-integral neighbours (an array result must not inherit an integer dtype)
        "uniform_int": lambda: UniformIce(2, valid_range=(-500, 0), index_above=1.0003, index_below=1.5),
        "antarctic_int": lambda: AntarcticIce(n0=2, k=1, a=0.0132, valid_range=(-2000, -10), index_above=1, index_below=2),
        "layered_2": lambda: LayeredIce([UniformIce(1.4, valid_range=(-100, 0)),
                                         AntarcticIce(valid_range=(-2850, -100))]),
        # no outer indices given: above / below the stack the index continues with the value AT the outermost boundary (not with
        # whatever the outer layers themselves would report outside their own range)
        "layered_none": lambda: LayeredIce([UniformIce(1.4, valid_range=(-100, 0), index_above=1.0),
                                            AntarcticIce(valid_range=(-2850, -100), index_below=1.0)],
                                           index_above=None, index_below=None),
        "layered_3": lambda: LayeredIce([UniformIce(1.6, valid_range=(-777, -400), index_below=1.7),
                                         UniformIce(1.4, valid_range=(-400, 0)),
                                         GreenlandIce(valid_range=(-3000, -777))], index_above=1.0, index_below=2.5),
    }
    return m


def cases(tier, seed):
    return [{"model": k} for k in _models()]


def _depths(lo, hi, extra=()):
    e = 2.0 ** -10
    ds = [hi + 10.0, hi + 2.0 ** -20, hi, hi - 2.0 ** -20, hi - e, hi - 1.0, hi - 10.0,
          (lo + hi) / 2, hi - 0.25 * (hi - lo), lo + 0.1 * (hi - lo), lo + 1.0, lo + e, lo, lo - e, lo - 1.0, lo - 2150.0]
    ds += list(extra)
    return sorted(set(ds), reverse=True)


def evaluate(case):
    name = case["model"]
    ice = _models()[name]()
    fails = []
    nontriv = []
    n = 0

    def fail(check, what, **tags):
        tags["model"] = name
        tags["group"] = check
        fails.append({"check": check, "what": "%s: %s" % (name, what), "tags": tags})

    layered = name.startswith("layered")
    if layered:
        bounds = ice.boundaries
        lo, hi = bounds[-1], bounds[0]
        extra = []
        for b in bounds[1:-1]:
            extra += [b, b + 2.0 ** -10, b - 2.0 ** -10]
        depths = _depths(lo, hi, extra)
    else:
        lo, hi = sorted(ice.valid_range)
        if tuple(ice.valid_range) != (lo, hi):
            fail("range-order", "valid_range is stored as %r, documented as (lower, upper)" % (tuple(ice.valid_range),))
        depths = _depths(lo, hi)
    exp_like = hasattr(ice, "k") and hasattr(ice, "a")

    # ---- index: scalar == array, declared values outside, monotone inside -----------------------
    scal = {}
    for z in depths:
        n += 1
        v = ice.index(z)
        if np.ndim(v) != 0:
            fail("index-shape", "index(scalar %r) is not a scalar: %r" % (z, v), z=z)
            continue
        scal[z] = float(v)
        want_above, want_below = ice.index_above, ice.index_below
        if name == "layered_none":
            want_above, want_below = float(ice.layers[0].index(hi)), float(ice.layers[-1].index(lo))
        if name in ("antarctic_none", "antarctic_shallow_none"):
            # "no index below given": the index continues with its value at the bottom of the range (closed form, not read back)
            want_below = ice.n0 - ice.k * math.exp(ice.a * lo)
        if z > hi and not scal[z] == want_above:
            fail("index-above", "index(%r)=%r but the declared index above the range is %r" % (z, scal[z], want_above), z=z)
        if z < lo and not scal[z] == want_below:
            fail("index-below", "index(%r)=%r but the declared index below the range is %r" % (z, scal[z], want_below), z=z)
        if lo <= z <= hi:
            nontriv.append("index|%r" % z)
    for shape in (1, 3, len(depths)):
        for start in range(0, len(depths) - shape + 1):
            zs = np.array(depths[start:start + shape])
            n += 1
            arr = ice.index(zs)
            if np.shape(arr) != (shape,):
                fail("index-shape", "index(array of %d) has shape %r" % (shape, np.shape(arr)), shape=shape)
                continue
            for z, a in zip(zs, arr):
                if float(a) != scal.get(float(z)):
                    fail("index-scalar-vs-array", "index(%r): scalar %r, as array element %r" % (z, scal.get(float(z)), float(a)), z=float(z))
    # integer-typed depth input (Python ints, lists of ints, integer arrays) is the same depth
    ints = [z for z in depths if float(z).is_integer()]
    for z in ints:
        n += 1
        v = ice.index(int(z))
        if np.ndim(v) != 0 or float(v) != scal.get(z):
            fail("index-int-input", "index(int %d) = %r, index(%r) = %r" % (int(z), v, z, scal.get(z)), z=z)
    if ints:
        # (a plain Python list raises TypeError in AntarcticIce.index -- documented as array_like, but the property speaks
        # of scalar and array depths only, so lists are not demanded here)
        for zs in (np.array([int(z) for z in ints], dtype=np.int64),):
            n += 1
            arr = np.asarray(ice.index(zs))
            if arr.shape != (len(ints),) or any(float(a) != scal.get(z) for z, a in zip(ints, arr)):
                fail("index-int-input", "index(%s of ints %r) = %r, float evaluation %r"
                     % (type(zs).__name__, [int(z) for z in ints], arr.tolist(), [scal.get(z) for z in ints]), kind=type(zs).__name__)
    inside = [z for z in depths if lo <= z <= hi]
    if not layered:
        for z1, z2 in zip(inside[:-1], inside[1:]):       # z1 > z2 (z2 deeper)
            strict = abs(ice.n0 - scal[z1]) > 1e-9 * ice.n0 if exp_like else False
            if exp_like and not (scal[z2] > scal[z1] if strict else scal[z2] >= scal[z1]):
                fail("index-monotone", "index does not increase with depth: n(%r)=%r, n(%r)=%r" % (z1, scal[z1], z2, scal[z2]), z=z1)
            if not exp_like and scal[z2] != scal[z1]:
                fail("index-uniform", "uniform ice index varies inside the range", z=z1)
    # contains
    for z in depths:
        n += 1
        c = bool(ice.contains((3.0, -4.0, z)))
        if c != (lo <= z <= hi):
            fail("contains", "contains(z=%r) is %r, range [%r, %r]" % (z, c, lo, hi), z=z)

    # ---- inverse and gradient (exponential profiles) ---------------------------------------------
    if exp_like:
        for z in inside:
            n += 1
            nz = scal[z]
            if abs(ice.n0 - nz) > 1e-9 * ice.n0:
                back = ice.depth_with_index(nz)
                # conditioning of the logarithmic inverse: dz = dn / (k a e^{az})
                tol = 4 * np.finfo(float).eps * ice.n0 / (ice.k * ice.a * math.exp(ice.a * z)) + 1e-9
                if not abs(float(back) - z) <= tol:
                    fail("inverse", "depth_with_index(index(%r)) = %r (tol %.2g)" % (z, back, tol), z=z)
                ba = ice.depth_with_index(np.array([nz, nz]))
                if np.shape(ba) != (2,) or float(ba[0]) != float(back):
                    fail("inverse-scalar-vs-array", "depth_with_index array/scalar differ at n=%r: %r vs %r" % (nz, ba, back), z=z)
                nontriv.append("inverse|%r" % z)
        n_top, n_bot = float(ice.index(hi)), float(ice.index(lo))
        for nn, want in ((n_top - 0.01, hi), (1.0, hi), (n_bot + 1e-3, lo), (ice.n0 + 0.5, lo)):
            n += 1
            with np.errstate(all="ignore"):
                got = ice.depth_with_index(nn)
                gota = ice.depth_with_index(np.array([nn]))
            if not (float(got) == want and float(gota[0]) == want):
                fail("inverse-clamp", "depth_with_index(%r) = %r / array %r, expected clamp to %r" % (nn, got, gota, want), n=nn)
        # the gradients of all depths are asked for first and looked at afterwards (each answer is its own object: a later
        # call must not rewrite an earlier answer); the first answer is also overwritten by the caller before the second call
        kept = {}
        for z in inside:
            kept[z] = ice.gradient(z)
            if len(kept) == 1:
                first_copy = np.array(kept[z], dtype=float).copy()
                first_key = z
        if kept:
            try:
                scratch = ice.gradient(first_key)
                scratch += 7.0
            except (TypeError, ValueError):
                pass
            kept[first_key] = ice.gradient(first_key)
            if not np.array_equal(np.asarray(kept[first_key], float), first_copy):
                fail("gradient-history", "gradient(%r) answers %r after the caller modified an earlier answer in place (before: %r)"
                     % (first_key, kept[first_key], first_copy), z=first_key)
        for z in inside:
            h = 2.0 ** -8
            if z - h < lo or z + h > hi:
                continue
            n += 1
            g = kept[z]
            num = (float(ice.index(z + h)) - float(ice.index(z - h))) / (2 * h)
            if np.shape(g) != (3,) or g[0] != 0 or g[1] != 0:
                fail("gradient-shape", "gradient(%r) = %r" % (z, g), z=z)
            elif not abs(g[2] - num) <= 1e-5 * abs(num) + 1e-12:
                fail("gradient", "gradient(%r)[2] = %r, central difference %r" % (z, g[2], num), z=z)
            else:
                nontriv.append("gradient|%r" % z)
    elif not layered:
        g = ice.gradient(-5.0 + lo / 2)
        if not np.array_equal(g, [0, 0, 0]):
            fail("gradient", "uniform ice gradient %r" % (g,))

    # ---- layered dispatch --------------------------------------------------------------------------
    if layered:
        for z in depths:
            n += 1
            owner = None
            for layer in ice.layers:
                l0, l1 = layer.valid_range
                if l0 < z <= l1:
                    owner = layer
            if owner is None and z == lo:
                owner = ice.layers[-1]
            try:
                got = ice.layer_at_depth(z)
            except ValueError:
                got = None
            if got is not owner:
                fail("layer-dispatch", "layer_at_depth(%r) -> %r, expected %r" % (z, got, owner), z=z)
            if owner is not None:
                want = float(owner.index(z))
                if scal.get(z) != want:
                    fail("layer-index", "index(%r)=%r but the containing layer gives %r" % (z, scal.get(z), want), z=z)
                nontriv.append("layer|%r" % z)

    # ---- attenuation length ----------------------------------------------------------------------------
    if not layered:
        zin = [z for z in inside]
        sc = {}
        for z in zin:
            for f in FREQS:
                n += 1
                v = ice.attenuation_length(z, f)
                if np.ndim(v) != 0:
                    fail("atten-shape", "attenuation_length(scalar, scalar) has shape %r" % (np.shape(v),), z=z, f=f)
                    continue
                v = float(v)
                sc[(z, f)] = v
                if not (v > 0 and math.isfinite(v)):
                    fail("atten-positive", "attenuation_length(%r, %r) = %r" % (z, f, v), z=z, f=f)
                else:
                    nontriv.append("atten|%r|%r" % (z, f))
        for zshape, fshape in itertools.product((0, 1, 3), (0, 1, 3)):
            if zshape == 0 and fshape == 0:
                continue
            # every ordered selection (unsorted, descending and repeated values included) of frequencies and every
            # order of the depth selection: the matrix must not depend on how the caller ordered its axes
            for zsel, fsel in itertools.product(
                    (list(q) for q in itertools.permutations(zin[1:1 + max(zshape, 1)])),
                    (list(q) for q in itertools.product(FREQS, repeat=max(fshape, 1)))):
                za = np.array(zsel) if zshape else zsel[0]
                fa = np.array(fsel) if fshape else fsel[0]
                n += 1
                got = np.asarray(ice.attenuation_length(za, fa))
                want_shape = tuple(s for s in ((zshape,) if zshape else ()) + ((fshape,) if fshape else ()))
                if got.shape != want_shape:
                    fail("atten-shape", "attenuation_length(z%s, f%s) has shape %r, documented %r"
                         % (zshape or "", fshape or "", got.shape, want_shape), zshape=zshape, fshape=fshape)
                    continue
                g2 = got.reshape(max(zshape, 1), max(fshape, 1))
                for i, z in enumerate(zsel):
                    for j, f in enumerate(fsel):
                        want = sc[(z, f)]
                        if not abs(float(g2[i, j]) - want) <= 1e-12 * abs(want):
                            fail("atten-entry", "attenuation_length entry (z=%r,f=%r) = %r, scalar evaluation %r (shapes z%s f%s)"
                                 % (z, f, float(g2[i, j]), want, zshape, fshape), z=z, f=f, zshape=zshape, fshape=fshape)
        # history on one model object: the same depth / frequency arrays are handed in again after the caller has changed them
        # in place, and a result handed out earlier has been overwritten by the caller -- every answer is for the values at hand
        if len(zin) >= 4:
            za = np.array(zin[1:3], dtype=float)
            zb = np.array(zin[2:4], dtype=float)
            fa = np.array(FREQS[1:4], dtype=float)
            for fshape in (3, 0):
                farg = fa if fshape else float(fa[0])
                zarg = za.copy()
                n += 2
                first = np.asarray(ice.attenuation_length(zarg, farg))
                try:
                    first[...] = -1.0
                except (ValueError, TypeError):
                    pass
                zarg[:] = zb
                second = np.asarray(ice.attenuation_length(zarg, farg), dtype=float).reshape(2, max(fshape, 1))
                want = np.array([[sc[(float(z), float(f))] for f in (fa if fshape else fa[:1])] for z in zb])
                if not np.all(np.abs(second - want) <= 1e-12 * np.abs(want)):
                    fail("atten-history", "attenuation_length(z, f%s) after the depth array was changed in place from %s to %s: %s, scalar "
                         "evaluation at the new depths %s" % (fshape or "", za.tolist(), zb.tolist(), second.tolist(), want.tolist()),
                         fshape=fshape)
    return {"n": n, "nontrivial": ["%s|%s" % (name, k) for k in nontriv], "fails": fails,
            "sample": {"model": name, "depths": depths[:6], "freqs": FREQS[:3]}}
