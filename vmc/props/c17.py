"""C17 -- thermal noise: exactly the published cosine sum, band-limited, requested RMS, function of absolute time.

Full product lattice: class x length x grid offset x band x amplitude spec x uniqueness x rms spec, with every
numpy.random draw owned; single draws are additionally swept over a lattice (deviation bound 1/2 around the
default Weyl stream).
"""
import itertools
import math

import numpy as np

from ..engine import choice, rng, src
from ..oracles import dft

PID = "C17"
LEVEL = "exploration"
RULE = ("{FFT, Full} x N in {16,17,64,65} x grid offset {0, 5dt, -3dt, 2^20 dt} x band {inside, touching 0, past Nyquist, between "
        "bins} x amplitude {constant, vector callable, scalar-only callable, default Rayleigh} x uniqueness {1,2,3; 2.5 for the FFT class} x rms {given, (T,R), exactly 0}; "
        "per configuration the draws are the default Weyl stream plus every single draw (and pairs, thorough) replaced by each of "
        "{0.0, 0.25, 0.5, 0.75}; distinct_nontrivial = distinct configurations x draw scripts with a non-empty basis")
ASSUMPTIONS = ["numpy.random is owned: rayleigh/rand are derived by inverse CDF from the harness' uniform variates",
               "FFT noise between its own samples is linear interpolation by construction; 'function of absolute time' is checked at shared sample times",
               "Boltzmann constant from scipy.constants is trusted"]
CHUNK = 2

DT = 2.0 ** -30
NS = [16, 17, 64, 65]
OFFSETS = [0, 5, -3, 2 ** 20]
BANDS = {"inside": (2.5, 5.5), "touch0": (0.0, 2.5), "past_nyquist": (None, None), "between": (3.2, 3.8)}
AMPS = ["const", "vector", "scalar_only", "rayleigh"]


def _band(name, n):
    if name == "past_nyquist":
        return ((n // 2 - 1.5) / (n * DT), (n + 4.0) / (n * DT))
    lo, hi = BANDS[name]
    return (lo / (n * DT), hi / (n * DT))


def cases(tier, seed):
    out = []
    for cls in ("FFT", "Full"):
        for n in NS:
            for off in OFFSETS:
                for band in BANDS:
                    # pairs of draws only for the short grids (the number of draws grows with N x uniqueness)
                    out.append({"cls": cls, "N": n, "offset": off, "band": band, "bound": 2 if (tier != "quick" and n <= 17) else 1})
    return out


def _amp_spec(name):
    if name == "const":
        return 1.0, lambda f: np.ones(len(f))
    if name == "vector":
        fn = lambda f: 0.5 + np.asarray(f) * DT
        return fn, fn
    if name == "scalar_only":
        def fn(f):
            return 0.25 + math.sqrt(f * DT)      # math.sqrt(array) -> TypeError
        return fn, lambda f: np.array([0.25 + math.sqrt(x * DT) for x in f])
    return None, None


def _construct(cls, times, band, amp, unique, rms_spec, source):
    from pyrex import signals
    C = signals.FFTThermalNoise if cls == "FFT" else signals.FullThermalNoise
    kw = {"uniqueness_factor": unique}
    if amp is not None:
        kw["f_amplitude"] = amp
    if rms_spec == "given":
        kw["rms_voltage"] = 0.75
    elif rms_spec == "zero":
        kw["rms_voltage"] = 0.0
    else:
        kw["temperature"] = 300.0
        kw["resistance"] = 50.0
    with rng.owned(source):
        return C(times, band, **kw)


def _expected(cls, obj, t, t_start, rms, n_all=None):
    f = np.asarray(obj.freqs, dtype=float)
    a = np.asarray(obj.amps, dtype=float)
    ph = np.asarray(obj.phases, dtype=float)
    if len(f) == 0:
        return np.zeros(len(t))
    tt = np.asarray(t)[:, None]
    if cls == "Full":
        return (a * np.cos(2 * np.pi * f * tt + ph)).sum(axis=1) * math.sqrt(2.0 / len(f)) * rms
    return (a * np.cos(2 * np.pi * f * (tt - t_start) - ph)).sum(axis=1) * math.sqrt(2.0 / len(f)) * rms


def evaluate(case):
    cls, n, off, bname, bound = case["cls"], case["N"], case["offset"], case["band"], case["bound"]
    times = (np.arange(n) + off) * DT
    band = _band(bname, n)
    kB = 1.380649e-23
    fails = []
    nontriv = []
    nev = 0
    maxerr = 0.0
    only = case.get("only")
    for ampname, uarg, rms_spec in itertools.product(AMPS, (1, 2, 3, 2.5), ("given", "TR", "zero")):
        # a fractional uniqueness factor counts as its integer part for the FFT class (2.5 -> a trace of twice the length, and
        # consistently so); explored for one amplitude / rms spec
        unique = int(uarg)
        if uarg != unique and not (cls == "FFT" and ampname == "const" and rms_spec == "given"):
            continue
        if only and [ampname, uarg, rms_spec] != only[:3]:
            continue
        if rms_spec == "zero" and ampname != "const":
            continue        # a requested RMS of exactly 0 V (edge value): one amplitude spec is enough
        amp_arg, amp_ref = _amp_spec(ampname)
        rms = {"given": 0.75, "zero": 0.0}.get(rms_spec, math.sqrt(kB * 300.0 * 50.0 * (band[1] - band[0])))
        cfg = "%s N=%d offset=%d*dt band=%s amp=%s unique=%s rms=%s" % (cls, n, off, bname, ampname, uarg, rms_spec)
        tags = {"cls": cls, "band": bname, "amp": ampname, "offset": off,
                "nyquist_in_band": bool(cls == "FFT" and (unique * n) % 2 == 0 and band[1] >= 1 / (2 * DT))}

        def fail(check, what, script=None, **extra):
            t = dict(tags)
            t["group"] = check + ("|nyq" if t["nyquist_in_band"] else "")
            t.update(extra)
            fails.append({"check": check, "what": "%s draws=%s: %s" % (cfg, script, what), "tags": t,
                          "replay": dict(case, only=[ampname, uarg, rms_spec, script])})

        def body(ch):
            s = rng.ScriptSource(chooser=ch, lattice=[0.0, 0.25, 0.5, 0.75])
            try:
                obj = _construct(cls, times, band, amp_arg, uarg, rms_spec, s)
                vals = np.array(obj.values, dtype=float)
            except Exception as e:
                if src.exception_origin(e) != "library":
                    raise
                return ("exc", src.short_tb(e), s)
            return ("ok", obj, vals, s)

        first = None
        if only and len(only) > 3 and only[3] is not None:
            paths = [(choice.Chooser(only[3]), None)]
            paths = [(paths[0][0], body(paths[0][0]))]
        else:
            paths = choice.explore(body, bound=bound, max_paths=200000)
        for ch, res in paths:
            nev += 1
            script = ch.choices
            if res[0] == "exc":
                fail("exception", res[1], script)
                continue
            _, obj, vals, s = res
            f = np.asarray(obj.freqs, dtype=float)
            # 1. published frequencies inside the band
            if len(f) and not (np.all(f >= band[0]) and np.all(f <= band[1])):
                fail("band", "published frequencies outside the band: %s not in [%g, %g]" % (f.tolist(), band[0], band[1]), script)
            if len(np.asarray(obj.amps)) != len(f) or len(np.asarray(obj.phases)) != len(f):
                fail("basis-shape", "freqs/amps/phases lengths %d/%d/%d" % (len(f), len(obj.amps), len(obj.phases)), script)
                continue
            if abs(float(obj.rms) - rms) > 1e-12 * rms:
                fail("rms", "rms=%r, expected %r" % (obj.rms, rms), script)
            # 2. amplitudes as specified
            if ampname != "rayleigh" and len(f):
                want = amp_ref(f)
                want = np.where(f == 0, 0.0, want)
                if not np.allclose(obj.amps, want, rtol=1e-13, atol=0):
                    fail("amplitudes", "amps %s, specified %s" % (np.asarray(obj.amps).tolist(), want.tolist()), script)
            elif len(f):
                us = [v for lab, v in s.log if lab == "rayleigh"]
                want = np.where(f == 0, 0.0, -np.log1p(-np.array(us[:len(f)])))
                if len(us) < len(f) or not np.allclose(np.asarray(obj.amps) ** 2, want, rtol=1e-12, atol=1e-300):
                    fail("amplitudes", "default amplitudes are not Rayleigh(1/sqrt2) variates of the draws (E[a^2] must be 1)", script)
            # 3. the waveform is the published cosine sum
            exp = _expected(cls, obj, times, times[0], rms)
            scale = (rms or 1.0) * math.sqrt(2.0 * max(len(f), 1)) * (max(1.0, float(np.max(np.abs(obj.amps)))) if len(f) else 1.0)
            err = float(np.max(np.abs(vals - exp))) / scale if len(vals) == n else float("inf")
            maxerr = max(maxerr, err if not tags["nyquist_in_band"] else 0.0)
            k1 = False
            if not err <= 1e-11 and tags["nyquist_in_band"] and len(vals) == n:
                # signature of finding K1: the Nyquist bin enters with half weight (irfft keeps it once, all others twice)
                fn = 1 / (2 * DT)
                sel = np.isclose(f, fn, rtol=1e-12, atol=0)
                if sel.any():
                    jj = np.arange(n)
                    term = (np.asarray(obj.amps)[sel][0] * math.cos(np.asarray(obj.phases)[sel][0]) * (-1.0) ** jj
                            * math.sqrt(2.0 / len(f)) * rms)
                    k1 = bool(np.max(np.abs(vals - (exp - term / 2))) / scale <= 1e-11)
            if not err <= 1e-11:
                bad = int(np.argmax(np.abs(vals - exp))) if len(vals) == n else -1
                fail("cosine-sum", "values differ from sum a_k cos(2 pi f_k (t-t_ref) -+ phi_k) sqrt(2/n) rms by %.3g (rel.) at sample %d: got %r expected %r"
                     % (err, bad, vals[bad] if bad >= 0 else None, exp[bad] if bad >= 0 else None), script, sample=bad,
                     nyquist_half_weight_signature=k1)
            # 4. function of absolute time: re-gridding reproduces the values at shared sample times
            for lo, hi in ((2, n - 3), (-4, n + 5), (n - 2, n + 6)):
                tt = (np.arange(lo, hi) + off) * DT
                w = obj.with_times(tt)
                wv = np.asarray(w.values, dtype=float)
                if cls == "Full":
                    e2 = _expected(cls, obj, tt, times[0], rms)
                else:
                    n_all = unique * n
                    idx = (np.arange(lo, hi)) % n_all
                    full = _expected(cls, obj, (np.arange(n_all) + off) * DT, times[0], rms)
                    e2 = full[idx]
                e_rel = float(np.max(np.abs(wv - e2))) / scale
                shared = [(j, k) for j, k in enumerate(range(lo, hi)) if 0 <= k < n]
                stored_ok = all(abs(wv[j] - vals[k]) <= 1e-11 * scale for j, k in shared)
                if not stored_ok:
                    j, k = next((j, k) for j, k in shared if abs(wv[j] - vals[k]) > 1e-11 * scale)
                    fail("regrid-shared", "with_times(samples %d..%d) gives %r at shared sample %d where the stored value is %r"
                         % (lo, hi - 1, wv[j], k, vals[k]), script)
                elif not e_rel <= 1e-11 and not tags["nyquist_in_band"]:
                    fail("regrid-absolute-time", "with_times(samples %d..%d) differs from the basis evaluated at those absolute times by %.3g"
                         % (lo, hi - 1, e_rel), script)
            # 4b. a coarser grid that starts at the same time and has as many samples as the whole period: every second
            # original sample is shared
            tt2 = (2 * np.arange(int(unique) * n) + off) * DT
            wv2 = np.asarray(obj.with_times(tt2).values, dtype=float)
            sh2 = [(j, 2 * j) for j in range(len(tt2)) if 2 * j < n]
            if len(wv2) != len(tt2) or any(abs(wv2[j] - vals[k]) > 1e-11 * scale for j, k in sh2):
                fail("regrid-shared", "with_times onto a grid of twice the step (same start, %d samples) does not reproduce the stored values "
                     "at the shared sample times" % len(tt2), script)
            # 5. unit amplitudes -> requested RMS over a full period; nothing outside the band (FFT bins)
            if cls == "FFT" and len(f) and not tags["nyquist_in_band"]:
                n_all = unique * n
                full = np.asarray(obj.with_times((np.arange(n_all) + off) * DT).values, dtype=float)
                if ampname == "const" and np.all(np.asarray(obj.amps) == 1.0):
                    r = math.sqrt(float(np.mean(full ** 2)))
                    if not abs(r - rms) <= 1e-11 * rms:
                        fail("rms-period", "RMS over one period %r, requested %r" % (r, rms), script)
                if n_all <= 65:
                    spec = np.abs(dft.dft(full)) / n_all
                    fr = np.abs(dft.freqs(n_all, DT))
                    out = spec[(fr < band[0] - 1e-3 / (n_all * DT)) | (fr > band[1] + 1e-3 / (n_all * DT))]
                    if len(out) and not np.max(out) <= 1e-11 * scale:
                        fail("out-of-band", "DFT bin outside the band has magnitude %.3g" % np.max(out), script)
            if len(f):
                nontriv.append("%s|%s|%s|%s" % (cfg, ampname, uarg, script))
            # 6. reproducibility: same script -> identical basis and waveform; different script -> different
            if first is None:
                again = body(choice.Chooser(script))
                if again[0] != "ok" or not (np.array_equal(again[2], vals) and np.array_equal(again[1].phases, obj.phases)):
                    fail("reproducible", "the same random script gave a different waveform", script)
                first = (obj, vals)
            elif len(f) and ch.deviations and np.any(vals != 0) and np.array_equal(vals, first[1]) and \
                    any(a != b for (_, a), (_, b) in zip(s.log, [])):
                pass
        # two objects with the same basis produce identical waveforms -- also when the second object had already been
        # evaluated with its own basis before it was given the first one's (history: evaluate, transplant, evaluate)
        if first is not None and len(first[0].freqs):
            for evaluate_first in (False, True):
                o2 = _construct(cls, times, band, amp_arg if ampname != "rayleigh" else None, uarg, rms_spec, rng.WeylSource(0.7171))
                nev += 1
                tt = (np.arange(-2, n + 3) + off) * DT
                if evaluate_first:
                    _ = np.array(o2.with_times(tt).values)
                    _ = np.array(o2.values)
                o2.freqs = np.array(first[0].freqs)
                o2.amps = np.array(first[0].amps)
                o2.phases = np.array(first[0].phases)
                a = np.asarray(first[0].with_times(tt).values, dtype=float)
                b = np.asarray(o2.with_times(tt).values, dtype=float)
                if not np.array_equal(a, b):
                    fail("same-basis", "an object given the basis of another one%s produces a different waveform (max diff %.3g)"
                         % (" after having been evaluated once" if evaluate_first else "", float(np.max(np.abs(a - b)))), None,
                         evaluated_before_transplant=evaluate_first)
        # independent objects differ (default stream vs. a shifted stream)
        if first is not None and len(first[0].freqs) and ampname == "rayleigh":
            o2 = _construct(cls, times, band, amp_arg, uarg, rms_spec, rng.WeylSource(0.4242))
            nev += 1
            if np.array_equal(np.asarray(o2.values), first[1]) and np.any(first[1] != 0):
                fail("independent", "two objects built from different random streams are identical")
    return {"n": nev, "nontrivial": nontriv, "fails": fails, "stats": {"max_rel_err_cosine_sum": maxerr},
            "sample": {"cls": cls, "N": n, "offset_samples": off, "band": list(band)}}
