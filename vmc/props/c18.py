"""C18 -- uniform and layered tracers reduce to image geometry and to the one-medium tracer.

Exhaustive finite lattice: uniform-ice configurations x endpoint pairs x reflection counts against the image method
(unfolded straight line), and layered stacks x endpoint pairs against (i) chain continuity and Snell / mirror law at
every joint from the reported direction vectors, (ii) the unsplit medium's tracer for homogeneous / exponential ice
split at an arbitrary depth.
"""
import itertools
import math

import numpy as np

from ..engine import src

PID = "C18"
LEVEL = "exploration"
RULE = ("UniformIce (each geometry with a fresh tracer and with one re-pointed tracer whose paths are read afterwards): ranges {(-1000,0), (-300,-100)} x n in {1.5, 1.78} x boundary indices {(1,1.8), (1,None), (None,None)} x dyadic x,y offsets x "
        "endpoint depths strictly inside x separations x max_reflections 0..3; LayeredIce: uniform|uniform and Antarctic|Antarctic split at "
        "{-100,-400,-777}, U(1.4)|U(1.6), U(1.4)|U(1.6)|U(1.5), U|A; endpoint pairs in same and different layers, both orders; "
        "distinct_nontrivial = distinct (configuration, geometry, solution) paths checked")
ASSUMPTIONS = ["endpoints exactly on a boundary are excluded for reflected paths (degenerate zero-length first leg)",
               "split exponential ice is restricted to well-conditioned geometries (class W of C01) and compared with C01's tolerances"]
CHUNK = 1
C = 299792458.0


def cases(tier, seed):
    out = []
    for rng in ((-1000.0, 0.0), (-300.0, -100.0)):
        for n in (1.5, 1.78):
            for bidx in ((1.0, 1.8), (1.0, None), (None, None)):
                for off in ((0.0, 0.0), (300.0, -200.0)):
                    out.append({"kind": "uniform", "range": list(rng), "n": n, "bidx": list(bidx), "offset": list(off)})
    for split in ((-100.0, -400.0, -777.0) if tier == "quick" else (-100.0, -220.0, -400.0, -555.5, -777.0, -950.0)):
        out.append({"kind": "split_uniform", "split": split, "dense": tier != "quick"})
        out.append({"kind": "split_antarctic", "split": split, "dense": tier != "quick"})
    for stack in ("u14_u16", "u14_u16_u15", "u_a"):
        out.append({"kind": "stack", "stack": stack})
    return out


# ---- uniform ice: image method ------------------------------------------------------------------------------------
def _image(z0, z1, lo, hi, refl, first):
    """vertical legs of the unfolded path: returns (list of signed leg heights, boundary depths hit)"""
    legs = []
    hits = []
    d = first
    z = z0
    for k in range(refl):
        b = hi if d == 1 else lo
        legs.append(abs(b - z))
        hits.append(b)
        z = b
        d = -d
    legs.append(abs(z1 - z))
    return legs, hits, d


def _uniform_case(case):
    from pyrex.ice_model import UniformIce
    from pyrex.ray_tracing import UniformRayTracer
    lo, hi = case["range"]
    n = case["n"]
    ia, ib = case["bidx"]
    ox, oy = case["offset"]
    ice = UniformIce(n, valid_range=(lo, hi), index_above=ia, index_below=ib)
    span = hi - lo
    zs = [hi - span / 8, hi - span / 2 - 2.0 ** -3, lo + span / 16]
    rhos = [0.0, 2.0 ** -4, 37.5, 512.0]
    fails = []
    nontriv = []
    nev = 0
    # Two ways of obtaining the solutions of every geometry: a new tracer each ("fresh"), and ONE tracer object that is
    # re-pointed from geometry to geometry by attribute assignment, whose solution paths are collected first and only
    # evaluated after the tracer has moved on ("reused") -- a path is defined by its own endpoints, not by its parent's.
    geoms = list(itertools.product(zs, zs, rhos, (0, 1, 2, 3)))
    shared = None
    collected = []
    for mode in ("fresh", "reused"):
        for z0, z1, rho, maxr in geoms:
            nev += 1
            p0 = np.array([ox, oy, z0])
            p1 = np.array([ox + 0.8 * rho, oy + 0.6 * rho, z1])
            try:
                if mode == "fresh":
                    a_, b_ = p0.copy(), p1.copy()
                    tr = UniformRayTracer(a_, b_, ice)
                    tr.max_reflections = maxr
                else:
                    if shared is None:
                        shared = UniformRayTracer(p0, p1, ice)
                    tr = shared
                    tr.from_point = p0
                    tr.to_point = p1
                    tr.max_reflections = maxr
                sols = list(tr.solutions)
                if mode == "fresh":
                    # the end points were the caller's arrays; the caller re-uses them (in place) before reading the paths
                    a_ += 333.0
                    b_[:] = (1.0, 2.0, lo + 0.25 * span)
            except Exception as e:
                if src.exception_origin(e) != "library":
                    raise
                fails.append({"check": "exception", "what": "uniform n=%g range=%s indices=%s from %s to %s max_reflections=%d (%s tracer): %s"
                                                            % (n, case["range"], case["bidx"], p0.tolist(), p1.tolist(), maxr, mode, src.short_tb(e)),
                              "tags": {"group": "exception", "reflections": maxr, "mode": mode}})
                continue
            collected.append((mode, z0, z1, rho, maxr, p0, p1, sols))
    for mode, z0, z1, rho, maxr, p0, p1, sols in collected:
        tag = "uniform n=%g range=%s indices=%s from %s to %s max_reflections=%d (%s tracer)" % (
            n, case["range"], case["bidx"], p0.tolist(), p1.tolist(), maxr, mode)

        def fail(check, what, **tags):
            tags.update(group=check, reflections=maxr, mode=mode)
            fails.append({"check": check, "what": "%s: %s" % (tag, what), "tags": tags})
        expected = [(0, 0)]
        for r in range(1, maxr + 1):
            for first in (1, -1):
                ups = (r + 1) // 2 if first == 1 else r // 2
                downs = r - ups
                if (ups and ia is None) or (downs and ib is None):
                    continue
                expected.append((r, first))
        if len(sols) != len(expected):
            fail("solution-set", "%d solutions, image method predicts %d (%s)" % (len(sols), len(expected), expected))
            continue
        for p, (r, first) in zip(sols, expected):
            legs, hits, dfinal = _image(z0, z1, lo, hi, r, first if r else (1 if z1 >= z0 else -1))
            if r == 0:
                H = z1 - z0
                L = math.hypot(rho, H)
                e_want = np.array([0.8 * rho, 0.6 * rho, H]) / L if L > 0 else None
                r_want = e_want
            else:
                H = sum(legs)
                L = math.hypot(rho, H)
                e_want = np.array([0.8 * rho, 0.6 * rho, first * H]) / L
                r_want = np.array([0.8 * rho, 0.6 * rho, dfinal * H]) / L
            try:
                Lg, Tg = float(p.path_length), float(p.tof)
                eg, rg = np.asarray(p.emitted_direction, float), np.asarray(p.received_direction, float)
                xs, ys, zs_ = (np.asarray(v, float) for v in p.coordinates)
            except Exception as e:
                if src.exception_origin(e) != "library":
                    raise
                fail("exception", "solution (%d reflections, first %+d): %s" % (r, first, src.short_tb(e)))
                continue
            nontriv.append("%s|%d|%d" % (tag, r, first))
            if not abs(Lg - L) <= 1e-12 * max(L, 1.0):
                fail("image-length", "%d reflections first %+d: path length %.12g, image method %.12g" % (r, first, Lg, L), offset=bool(ox or oy))
            if not abs(Tg - n * L / C) <= 1e-12 * max(n * L / C, 1e-12):
                fail("image-tof", "%d reflections: tof %.12g, n L / c = %.12g" % (r, Tg, n * L / C))
            if e_want is not None and not (np.max(np.abs(eg - e_want)) <= 1e-12 and np.max(np.abs(rg - r_want)) <= 1e-12):
                fail("image-directions", "%d reflections first %+d: emitted %s received %s, image method %s / %s"
                     % (r, first, eg.tolist(), rg.tolist(), e_want.tolist(), r_want.tolist()), offset=bool(ox or oy))
            # intermediate points: on the boundary planes and on the unfolded straight line
            if len(zs_) != r + 2:
                fail("image-points", "%d reflections: %d path points" % (r, len(zs_)))
                continue
            acc = 0.0
            for k in range(r):
                acc += legs[k]
                frac = acc / H if H else 0.0
                want = (ox + 0.8 * rho * frac, oy + 0.6 * rho * frac, hits[k])
                got = (xs[k + 1], ys[k + 1], zs_[k + 1])
                if not max(abs(a - b) for a, b in zip(got, want)) <= 1e-9 * max(1.0, rho):
                    fail("image-points", "%d reflections first %+d: reflection point %d at %s, unfolded line meets the boundary at %s"
                         % (r, first, k, list(got), list(want)), offset=bool(ox or oy))
                    break
    return {"n": nev, "nontrivial": nontriv, "fails": fails, "sample": {"uniform": case}}


# ---- layered ice ---------------------------------------------------------------------------------------------------
def _layer_index_at(layer, z):
    return float(layer.index(z))


def _check_chain(sol, p0, p1, ice, fail, label):
    """continuity and Snell / mirror law at every joint, from the reported points and direction vectors"""
    paths = sol.paths
    pts = [np.asarray(paths[0].from_point, float)] + [np.asarray(q.to_point, float) for q in paths]
    if np.max(np.abs(pts[0] - p0)) > 1e-9 or np.max(np.abs(pts[-1] - p1)) > 1e-9:
        fail("chain-endpoints", "%s: chain runs from %s to %s" % (label, pts[0].tolist(), pts[-1].tolist()))
    ok = True
    for a, b in zip(paths[:-1], paths[1:]):
        if np.max(np.abs(np.asarray(a.to_point, float) - np.asarray(b.from_point, float))) > 1e-9:
            fail("chain-continuity", "%s: a sub-path ends at %s but the next starts at %s" % (label, np.asarray(a.to_point).tolist(), np.asarray(b.from_point).tolist()))
            ok = False
            continue
        zb = float(a.to_point[2])
        if not any(abs(zb - bd) <= 1e-9 for bd in ice.boundaries):
            fail("chain-boundary", "%s: joint at depth %r is not on a layer boundary %s" % (label, zb, ice.boundaries))
        ra = np.asarray(a.received_direction, float)
        eb = np.asarray(b.emitted_direction, float)
        na = float(a.ice.index(zb))
        nb = float(b.ice.index(zb))
        sa, sb = math.hypot(ra[0], ra[1]), math.hypot(eb[0], eb[1])
        if sa > 1e-12 and sb > 1e-12 and (abs(ra[0] / sa - eb[0] / sb) > 1e-7 or abs(ra[1] / sa - eb[1] / sb) > 1e-7):
            fail("joint-azimuth", "%s: the ray changes azimuth at z=%g" % (label, zb))
        if a.ice is b.ice:
            # reflection: mirror law
            if not (abs(sa - sb) <= 2e-6 and ra[2] * eb[2] < 0):
                fail("joint-mirror", "%s: reflection at z=%g: arrives with (sin,cos)=(%.8f,%.8f), leaves with (%.8f,%.8f)"
                     % (label, zb, sa, ra[2], sb, eb[2]))
        else:
            if not (abs(na * sa - nb * sb) <= 2e-6 * max(1.0, na * sa) and ra[2] * eb[2] > 0):
                fail("joint-snell", "%s: transmission at z=%g: n sin(theta) = %.9f before, %.9f after (vertical components %.4f / %.4f)"
                     % (label, zb, na * sa, nb * sb, ra[2], eb[2]))
    L = float(sol.path_length)
    T = float(sol.tof)
    if not abs(L - sum(float(q.path_length) for q in paths)) <= 1e-9 * L or not abs(T - sum(float(q.tof) for q in paths)) <= 1e-9 * T:
        fail("chain-sum", "%s: path length / tof are not the sums over the sub-paths" % label)
    e0 = np.asarray(sol.emitted_direction, float)
    r1 = np.asarray(sol.received_direction, float)
    if np.max(np.abs(e0 - np.asarray(paths[0].emitted_direction, float))) > 1e-12 or np.max(np.abs(r1 - np.asarray(paths[-1].received_direction, float))) > 1e-12:
        fail("chain-directions", "%s: emitted/received direction are not those of the first/last sub-path" % label)
    return ok


def _split_case(case):
    from pyrex.ice_model import UniformIce, AntarcticIce
    from pyrex.ray_tracing import UniformRayTracer, SpecializedRayTracer
    from pyrex.custom.layered_ice import LayeredIce, LayeredRayTracer
    d = case["split"]
    fails = []
    nontriv = []
    nev = 0
    if case["kind"] == "split_uniform":
        whole = UniformIce(1.5, valid_range=(-1000, 0), index_above=1.0, index_below=1.8)
        ice = LayeredIce([UniformIce(1.5, valid_range=(d, 0), index_above=1.0), UniformIce(1.5, valid_range=(-1000, d), index_below=1.8)],
                         index_above=1.0, index_below=1.8)
        zs = [-30.0, -250.0, -600.0, -900.0] if not case.get("dense") else [-30.0, -150.0, -250.0, -450.0, -600.0, -750.0, -900.0]
        rhos = [0.0, 2.0 ** -3, 80.0, 640.0] if not case.get("dense") else [0.0, 2.0 ** -3, 20.0, 80.0, 250.0, 640.0, 1500.0]
        tolL, tolD = 1e-9, 1e-7
    else:
        whole = AntarcticIce()
        # internal boundaries: each layer is told that its neighbour continues with the same index (index_above/below = None)
        ice = LayeredIce([AntarcticIce(valid_range=(d, 0)), AntarcticIce(valid_range=(-2850, d), index_above=None)])
        zs = [-30.0, -150.0, -300.0, -600.0] if not case.get("dense") else [-30.0, -80.0, -150.0, -300.0, -450.0, -600.0]
        rhos = [80.0, 320.0, 640.0] if not case.get("dense") else [80.0, 160.0, 320.0, 640.0, 1000.0]
        tolL, tolD = 3e-5, 2e-4
    geoms = list(itertools.product(zs, zs, rhos))
    # grazing crossings of the fictitious boundary: the connecting ray leaves within a degree of horizontal, i.e. at the very
    # edge of the range of launch angles for which the layer sequence can be traversed at all
    geoms += [(d + 5.0, d - 6.0, 640.0), (d - 6.0, d + 5.0, 640.0), (d + 2.0, d - 3.0, 320.0), (d - 9.0, d + 4.0, 1024.0)]
    for z0, z1, rho in geoms:
        if abs(z0 - d) < 1.0 or abs(z1 - d) < 1.0 or (rho == 0.0 and z0 == z1):
            continue
        if case["kind"] == "split_antarctic" and rho < 0.3 * abs(z0 - z1):
            continue            # class W only (well-conditioned)
        nev += 1
        p0 = np.array([256.0, -128.0, z0])
        p1 = np.array([256.0 + 0.8 * rho, -128.0 + 0.6 * rho, z1])
        label0 = "%s at %g, %s -> %s" % (case["kind"], d, p0.tolist(), p1.tolist())

        def fail(check, what, **tags):
            tags.update(group=check, kind=case["kind"])
            fails.append({"check": check, "what": what, "tags": tags})
        try:
            if case["kind"] == "split_uniform":
                ref = UniformRayTracer(p0, p1, whole)
                ref.max_reflections = 1
            else:
                ref = SpecializedRayTracer(p0, p1, whole)
            rsols = ref.solutions
            lt = LayeredRayTracer(p0, p1, ice)
            lsols = lt.solutions
        except Exception as e:
            if src.exception_origin(e) != "library":
                raise
            fail("exception", "%s: %s" % (label0, src.short_tb(e)))
            continue
        used = set()
        for ri, rs in enumerate(rsols):
            Lr, Tr = float(rs.path_length), float(rs.tof)
            er, rr = np.asarray(rs.emitted_direction, float), np.asarray(rs.received_direction, float)
            best = None
            for li, ls in enumerate(lsols):
                if li in used:
                    continue
                dl = abs(float(ls.path_length) - Lr) / Lr
                dd = float(np.max(np.abs(np.asarray(ls.emitted_direction, float) - er)))
                if dl <= tolL * 10 and dd <= tolD * 10 and (best is None or dl + dd < best[1]):
                    best = (li, dl + dd)
            if best is None:
                fail("split-missing", "%s: unsplit solution %d (L=%.6f, emitted %s) has no counterpart among the %d layered solutions (L=%s)"
                     % (label0, ri, Lr, er.tolist(), len(lsols), [round(float(s.path_length), 4) for s in lsols]))
                continue
            used.add(best[0])
            ls = lsols[best[0]]
            nontriv.append("%s|%d" % (label0, ri))
            if not (abs(float(ls.path_length) - Lr) <= tolL * Lr and abs(float(ls.tof) - Tr) <= tolL * Tr):
                fail("split-length", "%s: solution %d: layered L=%.9f T=%.6e, unsplit L=%.9f T=%.6e" % (label0, ri, ls.path_length, ls.tof, Lr, Tr))
            if not (np.max(np.abs(np.asarray(ls.emitted_direction, float) - er)) <= tolD and np.max(np.abs(np.asarray(ls.received_direction, float) - rr)) <= tolD):
                fail("split-directions", "%s: solution %d: layered emitted %s received %s, unsplit %s / %s"
                     % (label0, ri, np.asarray(ls.emitted_direction).tolist(), np.asarray(ls.received_direction).tolist(), er.tolist(), rr.tolist()))
            fl, fr = ls.fresnel, rs.fresnel
            if not (abs(complex(fl[0]) - complex(fr[0])) <= 1e-6 and abs(complex(fl[1]) - complex(fr[1])) <= 1e-6):
                fail("split-transmission", "%s: solution %d: layered Fresnel factors %r, unsplit %r (transmission through the fictitious boundary must be 1)"
                     % (label0, ri, fl, fr))
            _check_chain(ls, p0, p1, ice, fail, label0 + " solution %d" % ri)
        for li, ls in enumerate(lsols):
            if li in used:
                continue
            nontriv.append("%s|extra%d" % (label0, li))
            _check_chain(ls, p0, p1, ice, fail, label0 + " extra solution %d" % li)
            joints = [float(q.to_point[2]) for q in ls.paths[:-1]]
            # a single-layer sub-path whose turning point is clamped to the top of its layer also reflects off that boundary
            for q in ls.paths:
                zt = getattr(q, "z_turn", None)
                if zt is not None and not q.direct and abs(float(zt) - float(q.ice.valid_range[1])) <= 1e-9:
                    joints.append(float(q.ice.valid_range[1]))
            if not any(abs(j - d) <= 1e-9 for j in joints):
                fail("split-extra", "%s: additional layered solution %d (L=%.6f) does not touch the fictitious boundary" % (label0, li, ls.path_length))
                continue
            fl = ls.fresnel
            if not (abs(complex(fl[0])) <= 1e-9 and abs(complex(fl[1])) <= 1e-9):
                fail("split-extra-amplitude", "%s: additional layered solution %d reflects off the fictitious boundary with amplitude %r (must be 0)"
                     % (label0, li, fl))
    return {"n": nev, "nontrivial": nontriv, "fails": fails, "sample": {"split": case}}


def _stack_case(case):
    from pyrex.ice_model import UniformIce, AntarcticIce
    from pyrex.custom.layered_ice import LayeredIce, LayeredRayTracer
    name = case["stack"]
    if name == "u14_u16":
        ice = LayeredIce([UniformIce(1.4, valid_range=(-300, 0)), UniformIce(1.6, valid_range=(-1000, -300), index_below=1.9)])
        zs = [-50.0, -250.0, -350.0, -800.0]
    elif name == "u14_u16_u15":
        ice = LayeredIce([UniformIce(1.4, valid_range=(-200, 0)), UniformIce(1.6, valid_range=(-500, -200)),
                          UniformIce(1.5, valid_range=(-1000, -500), index_below=1.2)])
        zs = [-100.0, -300.0, -450.0, -700.0]
    else:
        ice = LayeredIce([UniformIce(1.35, valid_range=(-50, 0)), AntarcticIce(valid_range=(-2850, -50), index_above=1.35)])
        zs = [-20.0, -80.0, -200.0, -500.0]
    fails = []
    nontriv = []
    nev = 0
    for z0, z1, rho in itertools.product(zs, zs, (16.0, 160.0, 480.0)):
        nev += 1
        p0 = np.array([-64.0, 32.0, z0])
        p1 = np.array([-64.0 + 0.8 * rho, 32.0 + 0.6 * rho, z1])
        label0 = "stack %s, %s -> %s" % (name, p0.tolist(), p1.tolist())

        def fail(check, what, **tags):
            tags.update(group=check, stack=name)
            fails.append({"check": check, "what": what, "tags": tags})
        try:
            lt = LayeredRayTracer(p0, p1, ice)
            sols = lt.solutions
            if bool(lt.exists) != (len(sols) > 0):
                fail("exists", "%s: exists=%r with %d solutions" % (label0, lt.exists, len(sols)))
        except Exception as e:
            if src.exception_origin(e) != "library":
                raise
            fail("exception", "%s: %s" % (label0, src.short_tb(e)), exc=type(e).__name__)
            continue
        for li, ls in enumerate(sols):
            try:
                _check_chain(ls, p0, p1, ice, fail, label0 + " solution %d" % li)
                # horizontal progress: the chain must cover exactly the separation
                run = sum(math.hypot(float(q.to_point[0] - q.from_point[0]), float(q.to_point[1] - q.from_point[1])) for q in ls.paths)
                if not abs(run - rho) <= 1e-6 * max(1.0, rho):
                    fail("chain-run", "%s solution %d: sub-paths cover %.9f m horizontally, separation %.9f" % (label0, li, run, rho))
                fs = ls.fresnel
                if not all(np.isfinite(complex(x).real) and np.isfinite(complex(x).imag) for x in fs):
                    fail("fresnel-finite", "%s solution %d: Fresnel factors %r" % (label0, li, fs))
                # chains of direct sub-paths: the amplitude factor is the product of the Fresnel coefficients of the joints,
                # recomputed here from the reported direction vectors and the indices on either side
                if all(q.direct for q in ls.paths) and len(ls.paths) > 1:
                    Fs, Fp = 1.0 + 0j, 1.0 + 0j
                    for a_, b_ in zip(ls.paths[:-1], ls.paths[1:]):
                        zb = float(a_.to_point[2])
                        ra = np.asarray(a_.received_direction, float)
                        n1 = float(a_.ice.index(zb))
                        cos1 = abs(ra[2])
                        sin1 = math.hypot(ra[0], ra[1])
                        if a_.ice is b_.ice:
                            k = ice.layers.index(a_.ice)
                            if ra[2] > 0:
                                n2 = float(ice.index_above) if k == 0 else float(ice.layers[k - 1].index(zb))
                            else:
                                n2 = float(ice.index_below) if k == len(ice.layers) - 1 else float(ice.layers[k + 1].index(zb))
                        else:
                            n2 = float(b_.ice.index(zb))
                        sin2 = n1 / n2 * sin1
                        cos2 = math.sqrt(1 - sin2 ** 2) if sin2 <= 1 else 1j * math.sqrt(sin2 ** 2 - 1)
                        if a_.ice is b_.ice:
                            Fs *= (n1 * cos1 - n2 * cos2) / (n1 * cos1 + n2 * cos2)
                            Fp *= (n2 * cos1 - n1 * cos2) / (n2 * cos1 + n1 * cos2)
                        else:
                            Fs *= 2 * n1 * cos1 / (n1 * cos1 + n2 * cos2)
                            Fp *= 2 * n1 * cos1 / (n2 * cos1 + n1 * cos2)
                    if not (abs(complex(fs[0]) - Fs) <= 1e-6 and abs(complex(fs[1]) - Fp) <= 1e-6):
                        fail("fresnel-product", "%s solution %d: Fresnel factors %r, product of the joint coefficients (%r, %r)" % (label0, li, fs, Fs, Fp))
            except Exception as e:
                if src.exception_origin(e) != "library":
                    raise
                fail("exception", "%s solution %d: %s" % (label0, li, src.short_tb(e)), exc=type(e).__name__)
                continue
            nontriv.append("%s|%d" % (label0, li))
    return {"n": nev, "nontrivial": nontriv, "fails": fails, "sample": {"stack": name}}


def evaluate(case):
    if case["kind"] == "uniform":
        return _uniform_case(case)
    if case["kind"].startswith("split"):
        return _split_case(case)
    return _stack_case(case)
