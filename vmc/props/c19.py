"""C19 -- detector composition: every antenna once, in construction order; union trigger / clear; kwargs dispatch.

Explicit enumeration (BFS by size) of all expression trees with <= 3 (quick) / 4 (thorough) leaves over six
leaf kinds and the operators +, reversed +, +=, sum; every keyword set; every hit pattern.  Reference model:
a flat Python list in construction order.
"""
import itertools
import operator

import numpy as np

from ..engine import src

PID = "C19"
LEVEL = "model_checking"
RULE = ("all leaf sequences of length 1..L over {LineA(2), LineB(1), Grid(2x LineA(1)), Grid(2x LineB(1)) -- the same class --, bare antenna, list of 2 antennas, "
        "AntennaSystem} x all parenthesisations x operator assignments {+, +=} per internal node (+ sum() of the flat list) x "
        "5 keyword sets; states = built detectors, transitions = build/hit/clear/trigger operations applied; then every hit "
        "pattern (2^n for n<=5 antennas, none/singles/all above); distinct_nontrivial = distinct (leaf sequence, tree shape, "
        "operators, keyword set) that produced a detector with >= 2 antennas")
ASSUMPTIONS = ["sub-detectors declaring **kwargs are outside the alphabet (what they 'accept' is ambiguous)",
               "an unknown keyword may be refused with TypeError or dropped, but must never reach a sub-detector"]
CHUNK = 4

KINDS = ["LineA", "LineB", "Grid", "GridB", "ant", "list", "system"]
KWSETS = [{}, {"power": 3.0}, {"gain": 5.0}, {"power": 3.0, "gain": 5.0, "threshold": 0.25}, {"unknown": 1}]

_CLASSES = {}


def _classes():
    if _CLASSES:
        return _CLASSES
    from pyrex.antenna import Antenna
    from pyrex.detector import Detector, AntennaSystem
    from pyrex.signals import Signal

    class Ant(Antenna):
        def __init__(self, position, power=1.0, gain=1.0):
            super().__init__(position=position, noisy=False)
            self.kw = {"power": power, "gain": gain}

        def trigger(self, signal):
            return bool(np.max(np.abs(signal.values)) > 0.5)

        # a "noise-only hit" (triggered, but not by Monte-Carlo truth) is modelled by a switch on the harness antenna: real
        # noise would need owned randomness for nothing -- the detector only ever reads these two properties
        noise_hit = False

        @property
        def is_hit(self):
            return True if self.noise_hit else super().is_hit

        @property
        def is_hit_mc_truth(self):
            return False if self.noise_hit else super().is_hit_mc_truth

    class Sys(AntennaSystem):
        def __init__(self, position):
            super().__init__(Ant)
            self.setup_antenna(position=position)
            self.position = position

        def front_end(self, signal):
            # an attenuating front end: whether the SYSTEM is hit is decided on the processed waveform, not on what the bare
            # antenna sees
            return Signal(signal.times, 0.125 * np.asarray(signal.values), value_type=signal.value_type)

    class LineA(Detector):
        def set_positions(self, n, x=0.0):
            for i in range(n):
                self.antenna_positions.append((x, 0.0, -10.0 - i))

        def build_antennas(self, power=1.0):
            self.got_build = {"power": power}
            self.subsets = [Ant(position=p, power=power) for p in self.antenna_positions]

        def triggered(self, require_mc_truth=False):
            # explicit signature: does NOT accept `threshold`
            self.got_trigger = {"threshold": 7, "require_mc_truth": require_mc_truth}
            return super().triggered(require_mc_truth=require_mc_truth)

    class LineB(Detector):
        def set_positions(self, n, x=0.0):
            for i in range(n):
                self.antenna_positions.append((x, 1.0, -20.0 - i))

        def build_antennas(self, gain=2.0, *, threshold=0.5):      # `threshold` is keyword-only
            self.got_build = {"gain": gain, "threshold": threshold}
            self.subsets = [Ant(position=p, gain=gain) for p in self.antenna_positions]

        def triggered(self, threshold=1, require_mc_truth=False):
            self.got_trigger = {"threshold": threshold, "require_mc_truth": require_mc_truth}
            return any(a.is_hit for a in self)

    class Grid(Detector):
        # one class, two kinds of content: its build/trigger signatures are mirrored from its lines per *instance*
        def set_positions(self, n, x=0.0, line="A"):
            for i in range(n):
                self.subsets.append((LineA if line == "A" else LineB)(1, x=x + 0.25 * (i + 1)))

    _CLASSES.update(Ant=Ant, Sys=Sys, LineA=LineA, LineB=LineB, Grid=Grid, Signal=Signal, Detector=Detector)
    return _CLASSES


def _leaf(kind, idx, above=False):
    """returns (object, list of expected antenna positions after build, accepted build kwargs per sub-detector)"""
    C = _classes()
    x = 100.0 * (idx + 1)
    if kind == "LineA":
        d = C["LineA"](2, x=x)
        return d, [(x, 0.0, -10.0), (x, 0.0, -11.0)]
    if kind == "LineB":
        d = C["LineB"](1, x=x)
        return d, [(x, 1.0, -20.0)]
    if kind == "Grid":
        d = C["Grid"](2, x=x)
        return d, [(x + 0.25, 0.0, -10.0), (x + 0.5, 0.0, -10.0)]
    if kind == "GridB":
        d = C["Grid"](2, x=x, line="B")
        return d, [(x + 0.25, 1.0, -20.0), (x + 0.5, 1.0, -20.0)]
    if kind == "ant":
        return C["Ant"](position=(x, 2.0, -30.0)), [(x, 2.0, -30.0)]
    if kind == "list":
        return [C["Ant"](position=(x, 3.0, -40.0)), C["Ant"](position=(x, 3.0, -41.0))], [(x, 3.0, -40.0), (x, 3.0, -41.0)]
    if kind == "system":
        return C["Sys"]((x, 4.0, -50.0)), [(x, 4.0, -50.0)]
    raise ValueError(kind)


def _shapes(n):
    """all binary tree shapes over leaves 0..n-1 as nested tuples"""
    def build(lo, hi):
        if hi - lo == 1:
            return [lo]
        out = []
        for mid in range(lo + 1, hi):
            for l in build(lo, mid):
                for r in build(mid, hi):
                    out.append((l, r))
        return out
    return build(0, n)


def _count_nodes(shape):
    return 0 if not isinstance(shape, tuple) else 1 + _count_nodes(shape[0]) + _count_nodes(shape[1])


def cases(tier, seed):
    L = 3 if tier == "quick" else 4
    out = []
    for n in range(1, L + 1):
        for seq in itertools.product(KINDS, repeat=n):
            # history layer: operation sequences of this length on every expression over these leaves
            hd = (3 if n <= 2 else 2) if tier == "quick" else (4 if n <= 2 else 3 if n == 3 else 2)
            out.append({"seq": list(seq), "hdepth": hd})
    if tier == "quick":
        # (a+b)+(c+d) needs four leaves: keep a reduced 4-leaf layer in the quick tier
        for seq in itertools.product(("LineA", "LineB", "ant"), repeat=4):
            out.append({"seq": list(seq), "hdepth": 2})
    for kind in KINDS:
        if kind != "GridB":
            out.append({"above": kind})
    out.append({"noise_reset": True})
    return out


class _Skip(Exception):
    pass


_OPERAND_NOTES = []


def _combine(shape, leaves, ops, counter):
    C = _classes()
    if not isinstance(shape, tuple):
        return leaves[shape]
    l = _combine(shape[0], leaves, ops, counter)
    r = _combine(shape[1], leaves, ops, counter)
    if not isinstance(l, C["Detector"]) and not isinstance(r, C["Detector"]):
        raise _Skip()
    op = ops[counter[0]]
    counter[0] += 1
    if op == "+":
        before = [id(a) for a in _walk(l, C)] if isinstance(l, C["Detector"]) else None
        res = l + r
        if before is not None and [id(a) for a in _walk(l, C)] != before:
            _OPERAND_NOTES.append("the left operand of `+` holds %d antennas after the addition, %d before"
                                  % (len(_walk(l, C)), len(before)))
        return res
    return operator.iadd(l, r)


def _positions(det):
    return [tuple(float(c) for c in a.position) if not hasattr(a, "antenna") else tuple(float(c) for c in a.antenna.position)
            for a in det]


def _subdetectors(obj, C):
    out = []
    if isinstance(obj, C["Detector"]):
        if isinstance(obj, (C["LineA"], C["LineB"])):
            out.append(obj)
        for s in obj.subsets:
            out.extend(_subdetectors(s, C))
    return out


def _trigger_targets(obj, C):
    """Sub-detectors whose `triggered` a combined detector dispatches to: combined detectors are transparent, any other
    detector (LineA, LineB, or a Grid with its default any-antenna trigger) is a target and is not looked into."""
    from pyrex.detector import CombinedDetector
    if isinstance(obj, CombinedDetector):
        out = []
        for s in obj.subsets:
            out.extend(_trigger_targets(s, C))
        return out
    return [obj] if isinstance(obj, C["Detector"]) else []


def _hit(ant, C, strong=True):
    """a pulse above (strong) or below the antennas' trigger threshold of 0.5"""
    a = 2.0 if strong else 0.125
    if hasattr(ant, "antenna"):
        a *= 16.0           # behind the x0.125 front end: 32 -> 4.0 (hit) / 2.0 -> 0.25 (no hit, though the bare antenna sees 2.0 > 0.5)
    sig = C["Signal"]([0.0, 1.0, 2.0, 3.0], [0.0, a, -a, 0.0], C["Signal"].Type.voltage)
    ant.receive(sig)


def _is_empty(ant):
    a = ant.antenna if hasattr(ant, "antenna") else ant
    return len(a.signals) == 0 and len(ant.all_waveforms) == 0 and not ant.is_hit


def _one_tree(seq, shape, ops, use_sum, kw, fails, tag):
    """Build one expression, run the whole observation script; returns (#transitions, n_antennas) or None if undefined."""
    C = _classes()
    leaves, expected = [], []
    for i, kind in enumerate(seq):
        obj, pos = _leaf(kind, i)
        leaves.append(obj)
        expected.extend(pos)
    del _OPERAND_NOTES[:]
    try:
        if use_sum:
            if not isinstance(leaves[0], C["Detector"]):
                return None
            det = sum(leaves)
        else:
            det = _combine(shape, leaves, ops, [0])
    except _Skip:
        return None
    if not isinstance(det, C["Detector"]):
        return None
    trans = 1
    for note in _OPERAND_NOTES:
        fails.append({"check": "operand-mutated", "what": "%s: %s" % (tag, note), "tags": {"group": "operand-mutated"}, "size": len(seq)})

    def fail(check, what):
        fails.append({"check": check, "what": "%s: %s" % (tag, what), "tags": {"group": check}, "size": len(seq)})

    # ---- build with keyword set -------------------------------------------------------------------
    subs = _subdetectors(det, C)
    try:
        det.build_antennas(**kw)
        trans += 1
        built = True
    except TypeError as e:
        built = False
        # a homogeneous composition passes all keywords straight through, so a keyword that its (single kind of)
        # sub-detector does not accept is legitimately refused; a mixed composition must filter per sub-detector
        accepted = {"LineA": {"power"}, "LineB": {"gain", "threshold"}}
        kinds = {type(s).__name__ for s in subs}
        refused_ok = "unknown" in kw or (len(kinds) == 1 and not set(kw) <= accepted[next(iter(kinds))])
        if not refused_ok:
            fail("build-kwargs", "build_antennas(%r) raised TypeError: %s" % (kw, e))
            return trans, 0
    if not built:
        for s in subs:
            if getattr(s, "got_build", None) is not None and "unknown" in s.got_build:  # pragma: no cover
                fail("build-kwargs", "unknown keyword reached %s" % type(s).__name__)
        return trans, 0
    for s in subs:
        got = getattr(s, "got_build", None)
        if got is None:
            fail("build-kwargs", "%s was never built" % type(s).__name__)
            continue
        for k, default in (("power", 1.0), ("gain", 2.0), ("threshold", 0.5)):
            if k in got:
                want = kw.get(k, default)
                if got[k] != want:
                    fail("build-kwargs", "%s.build_antennas received %s=%r, expected %r (call kwargs %r)"
                         % (type(s).__name__, k, got[k], want, kw))
    # ---- flattened content --------------------------------------------------------------------------
    got_pos = _positions(det)
    if got_pos != expected:
        fail("iteration-order", "list(detector) positions %s, construction order %s" % (got_pos, expected))
        return trans, len(expected)
    n = len(expected)
    if len(det) != n:
        fail("len", "len(detector)=%d, %d antennas" % (len(det), n))
    ants = list(det)
    if len(set(id(a) for a in ants)) != n:
        fail("iteration-once", "an antenna is visited more than once")
    for i in range(n):
        if det[i] is not ants[i] or det[i - n] is not ants[i]:
            fail("getitem", "detector[%d] is not the %d-th antenna of iteration" % (i, i))
    # ---- hit patterns, trigger, clear -----------------------------------------------------------------
    if n <= 5:
        patterns = list(itertools.product((0, 1), repeat=n))
    else:
        patterns = [tuple(0 for _ in range(n))] + [tuple(int(i == j) for i in range(n)) for j in range(n)] + [tuple(1 for _ in range(n))]
    tkw = {k: v for k, v in kw.items() if k != "unknown"}
    # third state 2 = noise-only hit (plain harness antennas only): every assignment for n <= 3, otherwise one noise-only hit
    # ahead of / behind one genuine hit for every pair
    plain = [isinstance(a, C["Ant"]) for a in ants]
    if kw:
        pass                # the noise-only state is explored once per expression (empty keyword set), not once per keyword set
    elif n <= 3:
        patterns += [q for q in itertools.product((0, 1, 2), repeat=n) if 2 in q and all(plain[i] for i, v in enumerate(q) if v == 2)]
    else:
        for i, j in itertools.permutations(range(n), 2):
            if plain[i]:
                patterns.append(tuple(2 if k == i else (1 if k == j else 0) for k in range(n)))
    lineb_members = set()
    for tgt in _trigger_targets(det, C):
        if type(tgt).__name__ == "LineB":
            lineb_members.update(id(a) for a in _walk(tgt, C))
    for pat in patterns:
        for a, h in zip(ants, pat):
            # every antenna receives something in every round: a triggering pulse or a sub-threshold one (what an antenna
            # decided in an earlier round, before clear(), must not decide this one)
            _hit(a, C, strong=(h == 1))
            if plain[ants.index(a)]:
                a.noise_hit = (h == 2)
        trans += 1
        for mc in (False, True):
            # LineB's own trigger (harness class) is "any antenna hit" whatever require_mc_truth says; everything else follows
            # the documented default
            want = any((h == 1) or (h == 2 and (not mc or id(a) in lineb_members)) for a, h in zip(ants, pat))
            for s in subs:
                s.got_trigger = None
            try:
                got = det.triggered(require_mc_truth=mc, threshold=7)
            except TypeError as e:
                # a composition whose sub-detectors all share the one signature that lacks `threshold` passes the
                # keyword straight through and is legitimately refused; a mixed composition must filter
                # (only the detectors the call is dispatched to count: a Grid answers with its default any-antenna trigger
                # and never forwards keywords to its lines)
                sigs = {type(s_).__name__ for s_ in _trigger_targets(det, C) if type(s_).__name__ != "Grid"}
                if sigs != {"LineA"}:
                    fail("trigger-kwargs", "triggered(require_mc_truth=%r, threshold=7) raised TypeError: %s" % (mc, e))
                    break
                got = det.triggered(require_mc_truth=mc)
            if bool(got) != want:
                fail("trigger-any", "hit pattern %s: triggered(require_mc_truth=%r) = %r" % (pat, mc, got))
            for s in subs:
                gt = getattr(s, "got_trigger", None)
                if gt is not None and (gt["threshold"] != 7 or gt["require_mc_truth"] != mc):
                    fail("trigger-kwargs", "%s.triggered received %r, expected threshold=7, require_mc_truth=%r"
                         % (type(s).__name__, gt, mc))
        hits = [bool(a.is_hit) for a in ants]
        if hits != [bool(h) for h in pat]:
            fail("hit-pattern", "is_hit %s after hitting pattern %s" % (hits, pat))
        for a in ants:
            if isinstance(a, C["Ant"]):
                a.noise_hit = False
        det.clear()
        trans += 1
        if not all(_is_empty(a) for a in ants):
            fail("clear", "after clear() some antenna is not empty (pattern %s)" % (pat,))
            break
    return trans, n


def _walk(obj, C):
    """Reference flattening, written independently of Detector.__iter__: the antennas currently held by a leaf."""
    if isinstance(obj, C["Detector"]):
        out = []
        for s in obj.subsets:
            out.extend(_walk(s, C))
        return out
    if isinstance(obj, list):
        return list(obj)
    return [obj]


def _history_alphabet(seq):
    return ["O", "Br"] + ["B%d" % i for i, k in enumerate(seq) if k in ("LineA", "LineB", "Grid", "GridB")]


def _histories(seq, shape, ops, use_sum, depth, fails, tag, only_hist=None):
    """Every sequence (length <= depth) of {observe the composition, build the composition, build leaf i directly}
    on a fresh copy of the expression; afterwards length, indexing and iteration of the composition must equal the
    concatenation, in leaf order, of the antennas each leaf holds at that moment, the trigger must follow a hit and
    clear() must empty every antenna."""
    C = _classes()
    alphabet = _history_alphabet(seq)
    count = 0
    hists = [h for d in range(1, depth + 1) for h in itertools.product(alphabet, repeat=d)]
    if only_hist is not None:
        hists = [tuple(only_hist)]
    for hist in hists:
        leaves = [_leaf(kind, i)[0] for i, kind in enumerate(seq)]
        try:
            if use_sum:
                if not isinstance(leaves[0], C["Detector"]):
                    return count
                det = sum(leaves)
            else:
                det = _combine(shape, leaves, ops, [0])
        except _Skip:
            return count
        if not isinstance(det, C["Detector"]):
            return count
        # `l += r` on a combined detector extends it in place: the composition may then BE leaf-level content; the
        # reference below only ever walks the leaves, never the composition
        bad = None
        for op in hist:
            count += 1
            if op == "O":
                _ = len(det)
                _ = [det[i] for i in range(len(det))]
                _ = list(det)
            elif op == "Br":
                det.build_antennas()
            else:
                leaves[int(op[1:])].build_antennas()
        want = []
        for leaf in leaves:
            want.extend(_walk(leaf, C))
        n = len(want)
        got = list(det)
        if len(got) != n or any(x is not y for x, y in zip(got, want)):
            bad = ("history-iteration", "iteration yields %d antennas, the leaves hold %d (or other objects / another order)"
                   % (len(got), n))
        elif len(det) != n:
            bad = ("history-len", "len(detector)=%d but iteration gives %d" % (len(det), n))
        else:
            for i in range(n):
                try:
                    ok = det[i] is want[i] and det[i - n] is want[i]
                except IndexError:
                    ok = False
                if not ok:
                    bad = ("history-getitem", "detector[%d] is not the %d-th antenna" % (i, i))
                    break
        if bad is None and n:
            _hit(want[-1], C)
            if not det.triggered():
                bad = ("history-trigger", "antenna %d is hit but triggered() is false" % (n - 1))
            det.clear()
            if not all(_is_empty(a) for a in want):
                bad = ("history-clear", "clear() left an antenna non-empty")
        elif bad is None and det.triggered():
            bad = ("history-trigger", "triggered() is true for a detector without antennas")
        if bad:
            fails.append({"check": bad[0], "what": "%s after history %s: %s" % (tag, list(hist), bad[1]),
                          "tags": {"group": bad[0]}, "size": len(seq) + len(hist), "hist": list(hist)})
    return count


def _noise_reset_case(case):
    """clear(reset_noise=True) on a detector reaches every antenna -- also those that received nothing in this round but had
    their noise read out; clear() without it keeps every antenna's noise."""
    from pyrex.antenna import Antenna
    from pyrex.detector import Detector
    from pyrex.signals import Signal
    from ..engine import rng
    DT = 2.0 ** -30
    t = np.arange(32) * DT

    class NoisyLine(Detector):
        def set_positions(self, n):
            for i in range(n):
                self.antenna_positions.append((0.0, 3.0 * i, -20.0 - i))

        def build_antennas(self):
            self.subsets = [Antenna(position=p_, temperature=300.0, resistance=50.0, freq_range=(1 / (16 * DT), 3 / (16 * DT)), noisy=True)
                            for p_ in self.antenna_positions]
    fails, nontriv = [], []
    n = 0
    for nest in (False, True):
        for pat in itertools.product((0, 1), repeat=3):
            for reset in (True, False):
                n += 1
                with rng.owned(rng.WeylSource(0.271)):
                    det = NoisyLine(3)
                    det.build_antennas()
                    if nest:
                        extra = NoisyLine(1)
                        extra.build_antennas()
                        det = det + extra
                    ants = list(det)
                    for a, h in zip(ants, pat + (0,)):
                        if h:
                            a.receive(Signal(t, 2.0 * np.sin(np.arange(32) * 0.7), Signal.Type.voltage))
                    before = [np.array(a.make_noise(t).values) for a in ants]
                    det.clear(reset_noise=reset)
                    after = [np.array(a.make_noise(t).values) for a in ants]
                same = [bool(np.array_equal(x, y)) for x, y in zip(before, after)]
                label = "%s, signals on %s, clear(reset_noise=%s)" % ("combined detector" if nest else "detector", list(pat), reset)
                nontriv.append("noise|%s|%s|%s" % (nest, pat, reset))
                if reset and any(same):
                    fails.append({"check": "clear-reset-noise", "what": "%s: antennas %s kept their noise realisation"
                                                                      % (label, [i for i, s_ in enumerate(same) if s_]),
                                  "tags": {"group": "clear-reset-noise"}})
                if not reset and not all(same):
                    fails.append({"check": "clear-keeps-noise", "what": "%s: antennas %s changed their noise realisation without a reset"
                                                                      % (label, [i for i, s_ in enumerate(same) if not s_]),
                                  "tags": {"group": "clear-keeps-noise"}})
                if any(len(a.signals) for a in ants):
                    fails.append({"check": "clear", "what": "%s: signals left after clear" % label, "tags": {"group": "clear"}})
    return {"n": n, "nontrivial": nontriv, "fails": fails, "states": n, "transitions": 3 * n, "sample": {"noise_reset": True}}


def evaluate(case):
    C = _classes()
    fails = []
    if case.get("noise_reset"):
        return _noise_reset_case(case)
    if "above" in case:
        kind = case["above"]
        n = 0
        # a position above the surface in each leaf kind must be rejected
        tests = []
        if kind in ("LineA", "LineB", "Grid"):
            cls = C[kind]

            class Bad(cls):
                def set_positions(self, n, x=0.0):
                    super().set_positions(n, x=x)
                    if self.antenna_positions and not self.subsets:
                        self.antenna_positions[-1] = (x, 0.0, 5.0)
                    elif self.subsets:
                        self.subsets[-1].antenna_positions[-1] = (x, 0.0, 5.0)
            tests.append(lambda: Bad(2, x=1.0))
        else:
            def mk():
                good = C["LineA"](1, x=0.0)
                good.build_antennas()
                if kind == "ant":
                    bad = C["Ant"](position=(1.0, 1.0, 5.0))
                elif kind == "list":
                    bad = [C["Ant"](position=(1.0, 1.0, -5.0)), C["Ant"](position=(1.0, 1.0, 5.0))]
                else:
                    bad = C["Sys"]((1.0, 1.0, 5.0))
                return good + bad
            tests.append(mk)

            def mk2():
                good = C["LineA"](1, x=0.0) + C["LineB"](1, x=1.0)
                good.build_antennas()
                bad = C["Ant"](position=(1.0, 1.0, 0.5)) if kind != "list" else [C["Ant"](position=(1.0, 1.0, 0.5))]
                if kind == "system":
                    bad = C["Sys"]((1.0, 1.0, 0.5))
                good += bad
                return good
            tests.append(mk2)

            def mk3():
                # a sub-detector that has opted out of the position test for ITSELF comes first; the offender after it is
                # still somebody else's antenna above the ice
                class Relaxed(C["LineA"]):
                    test_antenna_positions = False
                relaxed = Relaxed(1, x=0.0)
                relaxed.build_antennas()
                if kind == "ant":
                    bad = C["Ant"](position=(1.0, 1.0, 3.0))
                elif kind == "list":
                    bad = [C["Ant"](position=(1.0, 1.0, -5.0)), C["Ant"](position=(1.0, 1.0, 3.0))]
                else:
                    bad = C["Sys"]((1.0, 1.0, 3.0))
                return relaxed + bad
            tests.append(mk3)
        for t in tests:
            n += 1
            try:
                t()
            except ValueError:
                continue
            fails.append({"check": "above-surface", "what": "%s with an antenna above the ice surface was accepted" % kind,
                          "tags": {"group": "above-surface", "kind": kind}})
        return {"n": n, "nontrivial": ["above|%s|%d" % (kind, i) for i in range(n)], "fails": fails, "states": n, "transitions": n,
                "sample": {"above": kind}}
    seq = case["seq"]
    n = len(seq)
    nontriv = []
    states = trans = evals = 0
    variants = []
    for shape in _shapes(n):
        k = _count_nodes(shape)
        for ops in itertools.product(("+", "+="), repeat=k):
            variants.append((shape, ops, False))
    if n >= 2:
        variants.append((None, (), True))
    only = case.get("only")
    hdepth = case.get("hdepth", 0)
    for vi, (shape, ops, use_sum) in enumerate(variants):
        if hdepth and (not only or (only[0] == vi and case.get("hist"))):
            tag = "leaves %s shape %s ops %s%s" % (seq, shape, list(ops), " via sum()" if use_sum else "")
            before = len(fails)
            try:
                c = _histories(seq, shape, ops, use_sum, hdepth, fails, tag, case.get("hist"))
            except Exception as e:
                if src.exception_origin(e) != "library":
                    raise
                fails.append({"check": "exception", "what": "%s (history layer): %s" % (tag, src.short_tb(e)),
                              "tags": {"group": "exception"}, "size": n})
                c = 1
            for f in fails[before:]:
                f["replay"] = {"seq": seq, "only": [vi, 0], "hdepth": hdepth, "hist": f.pop("hist", None) or ["O"]}
            trans += c
            if c:
                nontriv.append("%s|%d|hist" % (",".join(seq), vi))
        if case.get("hist"):
            continue
        for ki, kw in enumerate(KWSETS):
            if only and (vi, ki) != tuple(only):
                continue
            tag = "leaves %s shape %s ops %s%s build/trigger kwargs %r" % (seq, shape, list(ops), " via sum()" if use_sum else "", kw)
            before = len(fails)
            try:
                r = _one_tree(seq, shape, ops, use_sum, dict(kw), fails, tag)
            except Exception as e:
                if src.exception_origin(e) != "library":
                    raise
                fails.append({"check": "exception", "what": "%s: %s" % (tag, src.short_tb(e)), "tags": {"group": "exception"}, "size": n})
                r = (1, 0)
            for f in fails[before:]:
                f["replay"] = {"seq": seq, "only": [vi, ki]}
            evals += 1
            if r is None:
                continue
            states += 1
            trans += r[0]
            if r[1] >= 2:
                nontriv.append("%s|%d|%d" % (",".join(seq), vi, ki))
    return {"n": evals, "nontrivial": nontriv, "fails": fails, "states": states, "transitions": trans,
            "sample": {"leaves": seq, "variants": len(variants), "kwsets": len(KWSETS)}}
