"""C20 -- the package uses only library interfaces that exist in the installed dependency set.

State space: the finite set of (file, line, reference) sites in the package source where
a third-party or standard-library name is imported or reached through an attribute chain,
plus the finite set of package modules as import roots.  Each site is decided by
*executing* the lookup against the installed libraries (no solver, no sampling).
"""
import ast
import importlib
import os
import shutil
import subprocess
import sys
import tempfile

from ..engine import src

PID = "C20"
LEVEL = "exploration"
NO_IMPORT = True
DETERMINISM_CASES = 3
RULE = ("every .py file under pyrex/ is parsed; every import of, and every attribute chain rooted at, a "
        "third-party/stdlib module is a site and is resolved by executing the lookup (modules and classes are "
        "walked, the walk stops at the first instance); a site inside a try that catches "
        "ImportError/AttributeError counts as guarded; every package module that does not need the emptied data "
        "files is additionally imported in its own fresh interpreter from a scratch copy; a bounded walk over the public API of live "
        "objects (6 groups, ~50 objects: every public attribute read, every public method called with every combination -- at most 48 -- "
        "of values from a per-parameter-name menu) counts exceptions that say a third-party / stdlib name, attribute, keyword or "
        "positional slot does not exist.  "
        "distinct_nontrivial = distinct fully resolved dotted references (e.g. numpy.fft.rfft)")
ASSUMPTIONS = [
    "only the installed versions (numpy/scipy/h5py/python of /venv) are enumerated; other versions inside the "
    "declared range cannot be installed offline and are not claimed",
    "names reached through instances (method calls on arrays etc.) are not resolved, except for a curated list of methods known to "
    "have been removed (ndarray.ptp/itemset/newbyteorder/tostring, dict.iteritems ...), flagged by name",
    "keyword arguments of calls to resolved third-party functions are checked against the function's introspectable signature; functions "
    "without one (C builtins, ufuncs) or taking **kwargs are not decided",
    "a name rebound locally (parameter/assignment) shadows the module binding and is skipped",
]

# top-level modules the package may rely on unconditionally: the standard library and the hard dependencies of setup.py
REQUIRED_TOPLEVEL = set(sys.stdlib_module_names) | {"numpy", "scipy", "h5py"}
CATCHING = {"ImportError", "AttributeError", "ModuleNotFoundError", "Exception", "BaseException"}
# modules whose import executes data files that are emptied in this sandbox
DATA_MODULES = ("pyrex.custom.ara", "pyrex.custom.arianna", "pyrex.custom.irex")


def _py_files():
    root = os.path.join(src.PYREX_SRC, "pyrex")
    out = []
    for d, _, fs in os.walk(root):
        for f in sorted(fs):
            if f.endswith(".py"):
                out.append(os.path.relpath(os.path.join(d, f), src.PYREX_SRC))
    return sorted(out)


def cases(tier, seed):
    cs = [{"kind": "static", "file": f} for f in _py_files()]
    cs.append({"kind": "setup"})
    mods = []
    for f in _py_files():
        m = f[:-3].replace(os.sep, ".")
        if m.endswith(".__init__"):
            m = m[:-9]
        if m.endswith("__about__"):
            continue
        mods.append(m)
    for m in sorted(set(mods)):
        cs.append({"kind": "import", "module": m})
    for g in ("signals", "media", "rays", "detector", "particles", "files"):
        cs.append({"kind": "walk", "group": g})
    return cs


def _is_internal(modname):
    return modname == "pyrex" or modname.startswith("pyrex.")


class _Sites(ast.NodeVisitor):
    def __init__(self, relfile):
        self.relfile = relfile
        self.bind = {}            # name -> dotted reference string it is bound to
        self.sites = []           # (lineno, dotted reference, guarded, kind)
        self.guard = 0
        self.hasattr_guards = []
        self.group = None         # (group id, branch) of the innermost catching try
        self.ngroups = 0
        self.local_stack = []
        pkg = relfile[:-3].replace(os.sep, ".")
        self.pkg = pkg.rsplit(".", 1)[0] if not pkg.endswith("__init__") else pkg[:-9]

    def _g(self, ref):
        """None = unguarded; True = under an availability flag; (gid, branch) = try alternatives.

        An `if <x>_available` / `if x.__available__` flag guards references to modules outside the required set (the
        optional dependency it announces); `if hasattr(mod, 'name')` guards exactly mod.name.  Neither guards anything else
        in its body -- in particular `hasattr(obj, ...)` on an arbitrary object guards nothing."""
        top = ref.split(".")[0]
        if self.guard > 0 and top not in REQUIRED_TOPLEVEL:
            return True
        for g in self.hasattr_guards:
            if ref == g or ref.startswith(g + "."):
                return True
        return self.group

    # imports --------------------------------------------------------------
    def visit_Import(self, node):
        for a in node.names:
            if _is_internal(a.name):
                continue
            self.sites.append((node.lineno, a.name, self._g(a.name), "import"))
            if a.asname:
                self.bind[a.asname] = a.name
            else:
                self.bind[a.name.split(".")[0]] = a.name.split(".")[0]

    def visit_ImportFrom(self, node):
        if node.level or _is_internal(node.module or ""):
            return
        for a in node.names:
            if a.name == "*":
                self.sites.append((node.lineno, node.module, self._g(node.module), "import"))
                continue
            ref = node.module + "." + a.name
            self.sites.append((node.lineno, ref, self._g(ref), "from-import"))
            self.bind[a.asname or a.name] = ref

    # guards -----------------------------------------------------------------
    def visit_Try(self, node):
        catches = False
        for h in node.handlers:
            if h.type is None:
                catches = True
            else:
                names = [h.type] if not isinstance(h.type, ast.Tuple) else h.type.elts
                for n in names:
                    nm = n.id if isinstance(n, ast.Name) else getattr(n, "attr", "")
                    if nm in CATCHING:
                        catches = True
        if not catches:
            self.generic_visit(node)
            return
        # alternatives: the try body (branch 0) or any handler (branch i+1) must resolve completely
        self.ngroups += 1
        gid = "%s#%d" % (self.relfile, self.ngroups)
        outer = self.group
        self.group = (gid, 0)
        for s in node.body:
            self.visit(s)
        for i, h in enumerate(node.handlers):
            self.group = (gid, i + 1)
            self.visit(h)
        self.group = outer
        for s in node.orelse + node.finalbody:
            self.visit(s)

    def visit_If(self, node):
        # `if <something>_available` / `if hasattr(...)` -- availability flags guard the body
        flag = any("available" in (getattr(n, "id", "") or getattr(n, "attr", "") or "")
                   for n in ast.walk(node.test) if isinstance(n, (ast.Name, ast.Attribute)))
        added = []
        for n in ast.walk(node.test):
            if (isinstance(n, ast.Call) and isinstance(n.func, ast.Name) and n.func.id == "hasattr" and len(n.args) == 2
                    and isinstance(n.args[0], ast.Name) and isinstance(n.args[1], ast.Constant)
                    and isinstance(n.args[1].value, str) and n.args[0].id in self.bind
                    and not any(n.args[0].id in l for l in self.local_stack)):
                added.append(self.bind[n.args[0].id] + "." + n.args[1].value)
        self.visit(node.test)
        if flag:
            self.guard += 1
        self.hasattr_guards.extend(added)
        for s in node.body:
            self.visit(s)
        if flag:
            self.guard -= 1
        for _ in added:
            self.hasattr_guards.pop()
        for s in node.orelse:
            self.visit(s)

    # scopes -----------------------------------------------------------------
    def _locals_of(self, node):
        names = set()
        a = node.args
        for x in a.posonlyargs + a.args + a.kwonlyargs:
            names.add(x.arg)
        if a.vararg:
            names.add(a.vararg.arg)
        if a.kwarg:
            names.add(a.kwarg.arg)
        for sub in ast.walk(node):
            if isinstance(sub, ast.Name) and isinstance(sub.ctx, ast.Store):
                names.add(sub.id)
            elif isinstance(sub, (ast.Import, ast.ImportFrom)):
                pass
        return names

    def visit_FunctionDef(self, node):
        self.local_stack.append(self._locals_of(node))
        self.generic_visit(node)
        self.local_stack.pop()

    visit_AsyncFunctionDef = visit_FunctionDef

    def visit_Lambda(self, node):
        self.local_stack.append(self._locals_of(node))
        self.generic_visit(node)
        self.local_stack.pop()

    # attribute chains -----------------------------------------------------------
    def visit_Attribute(self, node):
        chain = []
        cur = node
        while isinstance(cur, ast.Attribute):
            chain.append(cur.attr)
            cur = cur.value
        if isinstance(cur, ast.Name):
            root = cur.id
            if root in self.bind and not any(root in l for l in self.local_stack):
                ref = self.bind[root] + "." + ".".join(reversed(chain))
                self.sites.append((node.lineno, ref, self._g(ref), "attr"))
                return
        self.generic_visit(node)

    def visit_Name(self, node):
        pass


# Methods that existed on objects of the declared dependency range but are gone from the installed versions (numpy 2.x ndarray,
# Python 3.9+/3.12 stdlib objects).  Instance attributes cannot be resolved statically in general; this curated list catches the
# known removals by name wherever they are called on *any* object.
REMOVED_INSTANCE_METHODS = {
    "ptp": "ndarray.ptp (numpy 2.0; use np.ptp)", "itemset": "ndarray.itemset (numpy 2.0)",
    "newbyteorder": "ndarray.newbyteorder (numpy 2.0)", "tostring": "ndarray.tostring / array.tostring (numpy 2.0 / py 3.9)",
    "fromstring": "array.fromstring (py 3.9)", "getchildren": "xml Element.getchildren (py 3.9)",
    "getiterator": "xml Element.getiterator (py 3.9)", "isAlive": "Thread.isAlive (py 3.9)",
    "iteritems": "dict.iteritems (py 3)", "has_key": "dict.has_key (py 3)", "readfp": "ConfigParser.readfp (py 3.12)",
    "assertEquals": "TestCase.assertEquals (py 3.12)",
}


_RESOLVE_CACHE = {}


def resolve(ref):
    """Resolve a dotted reference by executing the lookup.  Returns (ok, detail, resolved_prefix)."""
    if ref in _RESOLVE_CACHE:
        return _RESOLVE_CACHE[ref]
    parts = ref.split(".")
    obj = None
    used = 0
    err = None
    # longest importable module prefix
    for i in range(len(parts), 0, -1):
        name = ".".join(parts[:i])
        try:
            obj = importlib.import_module(name)
            used = i
            break
        except ImportError as e:
            err = e
            continue
        except Exception as e:   # module exists but breaks on import for another reason
            err = e
            continue
    if obj is None:
        r = (False, "no module named %r (%s)" % (parts[0], err), "")
        _RESOLVE_CACHE[ref] = r
        return r
    import types
    import warnings
    for j in range(used, len(parts)):
        if not isinstance(obj, (types.ModuleType, type)):
            break   # first instance: stop walking
        try:
            with warnings.catch_warnings():
                warnings.simplefilter("error", DeprecationWarning)
                try:
                    obj = getattr(obj, parts[j])
                except DeprecationWarning:
                    with warnings.catch_warnings():
                        warnings.simplefilter("ignore")
                        obj = getattr(obj, parts[j])
        except AttributeError as e:
            r = (False, "%s has no attribute %r (%s)" % (".".join(parts[:j]), parts[j], str(e)[:120]),
                 ".".join(parts[:j]))
            _RESOLVE_CACHE[ref] = r
            return r
        used = j + 1
    r = (True, "", ".".join(parts[:used]))
    _RESOLVE_CACHE[ref] = r
    if used == len(parts):
        _RESOLVE_OBJ[ref] = obj
    return r


_RESOLVE_OBJ = {}


def _rejected_keywords(ref, keywords):
    """Keyword names the resolved callable does not accept, by its introspectable signature (None if it cannot be known:
    no signature, or it takes **kwargs)."""
    import inspect
    obj = _RESOLVE_OBJ.get(ref)
    if obj is None or not callable(obj) or isinstance(obj, type):
        return None
    try:
        sig = inspect.signature(obj)
    except (TypeError, ValueError):
        return None
    params = sig.parameters
    if any(p_.kind == p_.VAR_KEYWORD for p_ in params.values()):
        return None
    ok = {n_ for n_, p_ in params.items() if p_.kind in (p_.POSITIONAL_OR_KEYWORD, p_.KEYWORD_ONLY)}
    return [k for k in keywords if k not in ok]


def _static(case):
    path = os.path.join(src.PYREX_SRC, case["file"])
    with open(path, encoding="utf-8") as f:
        text = f.read()
    import warnings
    with warnings.catch_warnings():
        warnings.simplefilter("ignore")
        tree = ast.parse(text, filename=path)
    v = _Sites(case["file"])
    # two passes: bindings first (imports anywhere in the file), then the sites
    for node in ast.walk(tree):
        if isinstance(node, ast.Import):
            for a in node.names:
                if not _is_internal(a.name):
                    v.bind[a.asname or a.name.split(".")[0]] = a.name if a.asname else a.name.split(".")[0]
        elif isinstance(node, ast.ImportFrom) and not node.level and not _is_internal(node.module or ""):
            for a in node.names:
                if a.name != "*":
                    v.bind[a.asname or a.name] = node.module + "." + a.name
    v.visit(tree)
    fails = []
    nontrivial = set()
    guarded_unresolved = 0
    groups = {}
    for lineno, ref, guarded, kind in v.sites:
        ok, detail, resolved = resolve(ref)
        if ok:
            nontrivial.add(resolved)
        if isinstance(guarded, tuple):
            groups.setdefault(guarded[0], {}).setdefault(guarded[1], []).append((lineno, ref, ok, detail))
        elif ok:
            pass
        elif guarded:
            guarded_unresolved += 1
        else:
            fails.append({"check": "dead-reference",
                          "what": "%s:%d references %s: %s" % (case["file"], lineno, ref, detail),
                          "tags": {"file": case["file"], "ref": ref, "group": ref},
                          "size": lineno})
    defined_here = {n.name for n in ast.walk(tree) if isinstance(n, (ast.FunctionDef, ast.AsyncFunctionDef))}
    for node in ast.walk(tree):
        if isinstance(node, ast.Call) and isinstance(node.func, ast.Attribute) and node.func.attr in REMOVED_INSTANCE_METHODS \
                and node.func.attr not in defined_here:
            root = node.func.value
            if isinstance(root, ast.Name) and root.id in v.bind:
                continue        # module-level name: already resolved above
            fails.append({"check": "removed-instance-method",
                          "what": "%s:%d calls .%s() -- %s no longer exists" % (case["file"], node.lineno, node.func.attr,
                                                                               REMOVED_INSTANCE_METHODS[node.func.attr]),
                          "tags": {"file": case["file"], "ref": node.func.attr, "group": "method:" + node.func.attr}, "size": node.lineno})
    # keyword arguments of calls to third-party / standard-library functions: the installed function must accept them
    shadowed = set()
    for node in ast.walk(tree):
        if isinstance(node, (ast.FunctionDef, ast.AsyncFunctionDef, ast.Lambda)):
            shadowed |= v._locals_of(node) & set(v.bind)
    for node in ast.walk(tree):
        if not (isinstance(node, ast.Call) and node.keywords and isinstance(node.func, ast.Attribute)):
            continue
        chain, cur = [], node.func
        while isinstance(cur, ast.Attribute):
            chain.append(cur.attr)
            cur = cur.value
        if not (isinstance(cur, ast.Name) and cur.id in v.bind and cur.id not in shadowed):
            continue
        ref = v.bind[cur.id] + "." + ".".join(reversed(chain))
        kws = [k.arg for k in node.keywords if k.arg is not None]
        if not kws or not resolve(ref)[0]:
            continue
        bad = _rejected_keywords(ref, kws)
        if bad:
            fails.append({"check": "removed-keyword",
                          "what": "%s:%d calls %s(..., %s=...): the installed %s does not accept that keyword"
                                  % (case["file"], node.lineno, ref, bad[0], ref),
                          "tags": {"file": case["file"], "ref": ref, "group": "kw:" + ref + ":" + bad[0]}, "size": node.lineno})
        elif bad is not None:
            nontrivial.add(ref + "(kw)")
    for gid, branches in groups.items():
        if any(all(ok for _, _, ok, _ in sites) for sites in branches.values()):
            guarded_unresolved += sum(1 for sites in branches.values() for s in sites if not s[2])
            continue
        # a try body with no sites of its own resolves trivially (branch 0 absent) only if no handler is needed
        if 0 not in branches:
            guarded_unresolved += sum(1 for sites in branches.values() for s in sites if not s[2])
            continue
        for lineno, ref, ok, detail in branches[0]:
            if not ok:
                fails.append({"check": "dead-reference",
                              "what": "%s:%d references %s: %s (inside try/except, but no alternative branch "
                                      "resolves either)" % (case["file"], lineno, ref, detail),
                              "tags": {"file": case["file"], "ref": ref, "group": ref},
                              "size": lineno})
    return {"n": len(v.sites), "nontrivial": sorted(nontrivial), "fails": fails,
            "stats": {"sites": len(v.sites), "guarded_unresolved": guarded_unresolved},
            "sample": {"file": case["file"], "sites": [list(s[:2]) for s in v.sites[:4]]}}


def _setup(case):
    """setup.py itself: imports resolve and declared lower bounds are met by the installed set."""
    path = os.path.join(src.PYREX_SRC, "setup.py")
    r = _static({"file": "setup.py"}) if os.path.exists(path) else {"n": 0, "nontrivial": [], "fails": []}
    return r


_IMPORT_SNIPPET = r"""
import sys, traceback, os
sys.path.insert(0, sys.argv[1])
try:
    __import__(sys.argv[2])
    print("IMPORT-OK")
except BaseException as e:
    tb = traceback.extract_tb(e.__traceback__)
    inner = tb[-1]
    print("IMPORT-FAIL|%s|%s|%s|%d|%s" % (type(e).__name__, str(e).replace("\n"," ")[:300], inner.filename, inner.lineno, inner.name))
    frames = [f for f in tb if os.path.join(sys.argv[1], "pyrex") in f.filename]
    if frames:
        print("LIBFRAME|%s|%d" % (frames[-1].filename, frames[-1].lineno))
"""


def _import(case):
    mod = case["module"]
    tmp = tempfile.mkdtemp(prefix="c20-")
    try:
        shutil.copytree(os.path.join(src.PYREX_SRC, "pyrex"), os.path.join(tmp, "pyrex"), symlinks=True)
        env = dict(os.environ)
        env["PYTHONDONTWRITEBYTECODE"] = "1"
        env.pop("PYTHONPATH", None)
        p = subprocess.run([sys.executable, "-B", "-W", "ignore", "-c", _IMPORT_SNIPPET, tmp, mod],
                           capture_output=True, text=True, timeout=300, cwd=tmp, env=env)
        out = p.stdout.strip().splitlines()
    finally:
        shutil.rmtree(tmp, ignore_errors=True)
    fails = []
    status = "ok"
    if not out or out[0] != "IMPORT-OK":
        line = next((l for l in out if l.startswith("IMPORT-FAIL|")), None)
        if line is None:
            raise src.HarnessError("import probe of %s produced no verdict: %s %s" % (mod, p.stdout[-300:], p.stderr[-300:]))
        _, exc, msg, fn, ln, name = line.split("|", 5)
        libframe = next((l for l in out if l.startswith("LIBFRAME|")), "")
        where = libframe.split("|")[1:] if libframe else [fn, ln]
        where[0] = os.path.relpath(where[0], tmp) if where[0].startswith(tmp) else where[0]
        status = exc
        is_data = any(mod == d or mod.startswith(d + ".") for d in DATA_MODULES)
        is_name_error = exc in ("ImportError", "ModuleNotFoundError", "AttributeError")
        mentions_internal = "pyrex" in msg and exc != "AttributeError"
        optional = "pyspice" in msg or "PySpice" in msg
        if is_name_error and not optional and not (is_data and mentions_internal):
            fails.append({"check": "import-module",
                          "what": "importing %s in a fresh interpreter fails: %s: %s (at %s:%s)"
                                  % (mod, exc, msg, where[0], where[1]),
                          "tags": {"module": mod, "exc": exc, "group": "%s:%s" % (where[0], where[1])},
                          "size": 0})
        elif not is_data:
            fails.append({"check": "import-module",
                          "what": "importing %s fails with %s: %s (at %s:%s)" % (mod, exc, msg, where[0], where[1]),
                          "tags": {"module": mod, "exc": exc, "group": "%s:%s" % (where[0], where[1])},
                          "size": 0})
    return {"n": 1, "nontrivial": ["import:" + mod] if status == "ok" else [], "fails": fails,
            "stats": {"import_ok": int(status == "ok"), "import_blocked_by_data": int(status != "ok" and not fails)},
            "sample": {"import": mod, "status": status}}


def evaluate(case):
    if case["kind"] == "walk":
        from . import c20_walk
        from ..engine import src as _src
        _src.activate()
        return c20_walk.evaluate(case)
    if case["kind"] == "static":
        return _static(case)
    if case["kind"] == "setup":
        return _setup(case)
    return _import(case)
