"""C20, dynamic part: a bounded walk over the public API of live objects.

For every object of a fixed list (signals, noise, Askaryan pulses, ice / earth models, the four ray tracers and their paths,
antennas, detectors, generators, particles, an HDF5 file and its events) every public attribute is read and every public method
is called with every combination of argument values from a small per-parameter-name menu.  Only one kind of failure counts here:
an exception saying that a name, attribute, keyword or positional slot of a THIRD-PARTY or standard-library object does not
exist.  Everything else (ValueError for an argument combination that makes no sense, ...) is somebody else's property.
"""
import inspect
import itertools
import os
import re
import tempfile

import numpy as np

from ..engine import rng, src

DT = 2.0 ** -31
MAX_COMBOS = 48


def _pyrex_names():
    import pyrex
    import pkgutil
    import importlib
    names = set()
    for m in pkgutil.walk_packages(pyrex.__path__, "pyrex."):
        if any(x in m.name for x in (".ara", ".arianna", ".irex", "pyspice")):
            continue
        try:
            mod = importlib.import_module(m.name)
        except Exception:
            continue
        for k, v in vars(mod).items():
            if inspect.isclass(v) or inspect.isfunction(v):
                names.add(k)
                if inspect.isclass(v):
                    names.update(n for n, f in vars(v).items() if callable(f) or isinstance(f, property))
    return names


def dead_reference(e, pyrex_names):
    """Does this exception say that something of a third-party / stdlib object does not exist?  Returns a description or None."""
    msg = str(e)
    if isinstance(e, (ImportError, NameError)):
        return "%s: %s" % (type(e).__name__, msg)
    if isinstance(e, AttributeError):
        m = re.search(r"module '([\w.]+)' has no attribute '(\w+)'", msg)
        if m and not m.group(1).startswith("pyrex"):
            return msg
        m = re.search(r"'([\w.]+)' object has no attribute '(\w+)'", msg)
        if m and m.group(1).split(".")[-1] not in pyrex_names and m.group(1) not in ("NoneType", "function", "method"):
            return msg
        return None
    if isinstance(e, TypeError):
        m = re.search(r"(\w+)\(\) (got an unexpected keyword argument|takes .* positional arguments? but|got multiple values)", msg)
        if m and m.group(1) not in pyrex_names and m.group(1) not in ("__init__", "f", "func", "function", "<lambda>"):
            return msg
    return None


def _menu():
    from pyrex.signals import Signal
    t = np.arange(32) * DT
    sig = Signal(t, np.sin(np.arange(32) * 0.4), Signal.Type.voltage)
    fsig = Signal(t, np.sin(np.arange(32) * 0.4), Signal.Type.field)
    return {
        "f": [np.array([1e8, 5e8]), 2e8], "freqs": [np.array([1e8, 5e8])], "frequencies": [np.array([1e8, 5e8])], "frequency": [2e8],
        "z": [-100.0, np.array([-50.0, -300.0])], "depth": [-100.0], "n": [1.5], "r": [6.0e6, np.array([1e6, 6.3e6])],
        "point": [(0.0, 0.0, -100.0)], "endpoint": [(0.0, 0.0, -1000.0)], "direction": [(0.0, 0.6, -0.8), None], "step": [5000.0],
        "signal": [fsig, sig, None], "signals": [fsig], "polarization": [np.array([0.0, 0.6, 0.8]), None], "force_real": [False, True],
        "attenuation_interpolation": [None, 0.5], "times": [t + 3 * DT, t[4:20]], "new_times": [t + 3 * DT, t[4:20]],
        "dt": [3 * DT], "num": [16, 33], "new_num": [16], "freq_response": [lambda f: 1 / (1 + 1j * np.asarray(f) * 4 * DT)],
        "response": [lambda f: 1 / (1 + 1j * np.asarray(f) * 4 * DT)], "leading": [4 * DT, None], "trailing": [3 * DT, None], "force": [False, True],
        "reset_noise": [False, True], "attribute": [None, "tof", "energy", "particle_name"], "dataset": ["particles_meta", "event_indices"],
        "antenna_id": [None, 0, 1], "waveform_type": [None, 0, 1, "direct", "reflected"], "event_id": [None, 0, 1, -1], "ray": [None, 0, 1],
        "theta": [0.3], "phi": [1.1], "level": [0, 1], "particle": [None], "require_mc_truth": [False, True],
        "z_axis": [(0.0, 0.0, 1.0)], "x_axis": [(1.0, 0.0, 0.0)], "time": [5 * DT], "other": [sig, fsig, 0, 2.0],
    }


def walk_object(label, obj, menu, pyrex_names, fails, stats, skip=()):
    for name in sorted(n for n in dir(type(obj)) if not n.startswith("_")):
        if name in skip:
            continue
        attr = inspect.getattr_static(type(obj), name, None)
        if isinstance(attr, property) or not callable(getattr(type(obj), name, None)):
            stats["reads"] += 1
            try:
                getattr(obj, name)
            except Exception as e:
                d = dead_reference(e, pyrex_names)
                if d:
                    fails.append((label, name, "()", d, src.short_tb(e)))
            continue
        try:
            sig = inspect.signature(getattr(obj, name))
        except (TypeError, ValueError):
            continue
        params = [p for p in sig.parameters.values() if p.kind in (p.POSITIONAL_OR_KEYWORD, p.KEYWORD_ONLY)]
        choices = []
        ok = True
        for p in params:
            if p.name in menu:
                vals = list(menu[p.name])
                if p.default is not inspect.Parameter.empty:
                    vals = vals[:2] + [p.default]
                choices.append([(p.name, v) for v in vals])
            elif p.default is inspect.Parameter.empty:
                ok = False
                break
        if not ok:
            stats["skipped_methods"] += 1
            continue
        combos = list(itertools.islice(itertools.product(*choices), MAX_COMBOS)) if choices else [()]
        for combo in combos:
            stats["calls"] += 1
            kw = dict(combo)
            try:
                with rng.owned(rng.WeylSource(0.123)):
                    getattr(obj, name)(**kw)
            except Exception as e:
                d = dead_reference(e, pyrex_names)
                if d:
                    fails.append((label, name, "(%s)" % ", ".join("%s=%s" % (k, _short(v)) for k, v in kw.items()), d, src.short_tb(e)))
                    break


def _short(v):
    if isinstance(v, np.ndarray):
        return "array%s" % (v.shape,)
    s = repr(v)
    return s if len(s) < 40 else type(v).__name__


def objects(group, tmp):
    """label -> live object, per group"""
    from pyrex import signals, askaryan, ice_model, earth_model, ray_tracing as rt, antenna, detector, generation, particle
    from pyrex.custom.layered_ice import LayeredIce, LayeredRayTracer
    t = np.arange(32) * DT
    out = []
    if group == "signals":
        S = signals.Signal
        out += [("Signal", S(t, np.cos(np.arange(32) * 0.3), S.Type.voltage)), ("EmptySignal", signals.EmptySignal(t, S.Type.voltage)),
                ("FunctionSignal", signals.FunctionSignal(t, lambda x: np.exp(-(np.asarray(x) / (4 * DT)) ** 2), S.Type.voltage)),
                ("GaussianNoise", None)]
        with rng.owned(rng.WeylSource()):
            out[-1] = ("GaussianNoise", signals.GaussianNoise(t, 1.0))
            out += [("FFTThermalNoise", signals.FFTThermalNoise(t, (1 / (16 * DT), 3 / (16 * DT)), rms_voltage=1.0)),
                    ("FullThermalNoise", signals.FullThermalNoise(t, (1 / (16 * DT), 3 / (16 * DT)), temperature=300, resistance=50))]
        p = particle.Particle(12, (0, 0, -1000), (0, 0, -1), 1e9, interaction_model=particle.Interaction)
        p.interaction.em_frac, p.interaction.had_frac = 0.6, 0.4
        for nm, cls in (("ARZ", askaryan.ARZAskaryanSignal), ("AVZ", askaryan.AVZAskaryanSignal), ("ZHS", askaryan.ZHSAskaryanSignal)):
            out.append((nm, cls(np.arange(128) * 2.0 ** -33, p, 1.0, viewing_distance=100.0, ice_model=ice_model.AntarcticIce(), t0=20 * 2.0 ** -33)))
    elif group == "media":
        out += [("AntarcticIce", ice_model.AntarcticIce()), ("ArasimIce", ice_model.ArasimIce()), ("GreenlandIce", ice_model.GreenlandIce()),
                ("UniformIce", ice_model.UniformIce(1.6, valid_range=(-800, 0), index_above=1.0, index_below=1.9)),
                ("LayeredIce", LayeredIce([ice_model.UniformIce(1.5, valid_range=(-200, 0)), ice_model.UniformIce(1.7, valid_range=(-900, -200))])),
                ("PREM", earth_model.PREM()), ("CoreMantleCrustModel", earth_model.CoreMantleCrustModel())]
    elif group == "rays":
        a, b = (0.0, 0.0, -250.0), (400.0, 100.0, -100.0)
        uni = ice_model.UniformIce(1.6, valid_range=(-800, 0), index_above=1.0, index_below=1.9)
        lay = LayeredIce([ice_model.AntarcticIce(valid_range=(-150, 0)), ice_model.AntarcticIce(valid_range=(-2850, -150), index_above=None)])
        tracers = [("SpecializedRayTracer", rt.SpecializedRayTracer(a, b, ice_model.AntarcticIce())),
                   ("BasicRayTracer", rt.BasicRayTracer(a, b, ice_model.GreenlandIce(), dz=2.0)),
                   ("UniformRayTracer", rt.UniformRayTracer(a, b, uni)), ("LayeredRayTracer", LayeredRayTracer(a, b, lay))]
        tracers[2][1].max_reflections = 2
        for nm, tr in tracers:
            out.append((nm, tr))
            for i, pth in enumerate(tr.solutions):
                out.append(("%s.solutions[%d]" % (nm, i), pth))
    elif group == "detector":
        with rng.owned(rng.WeylSource()):
            dip = antenna.DipoleAntenna("d", (0, 0, -100), center_frequency=1 / (8 * DT), bandwidth=1 / (16 * DT), temperature=300, resistance=50,
                                        noisy=True)
            base = antenna.Antenna(position=(0, 0, -120), temperature=300, resistance=50, freq_range=(1 / (16 * DT), 3 / (16 * DT)), noisy=True)
            sysm = detector.AntennaSystem(antenna.Antenna)
            sysm.setup_antenna(position=(0, 0, -140), noisy=False)

            class Line(detector.Detector):
                def set_positions(self, n):
                    for i in range(n):
                        self.antenna_positions.append((0.0, 5.0 * i, -50.0 - i))
            d1, d2 = Line(2), Line(1)
            d1.build_antennas(antenna.Antenna, noisy=False)
            d2.build_antennas(antenna.Antenna, noisy=False)
        S = signals.Signal
        for a_ in (dip, base, sysm):
            with rng.owned(rng.WeylSource()):
                a_.receive(S(t, 2.0 * np.sin(np.arange(32) * 0.5), S.Type.voltage))
        out += [("DipoleAntenna", dip), ("Antenna", base), ("AntennaSystem", sysm), ("Detector", d1), ("CombinedDetector", d1 + d2)]
    elif group == "particles":
        out += [("CylindricalGenerator", generation.CylindricalGenerator(1000.0, 500.0, energy=1e8)),
                ("RectangularGenerator", generation.RectangularGenerator(500.0, 700.0, 400.0, energy=lambda: 1e7, shadow=False))]
        ev = particle.Event(particle.Particle(14, (0, 0, -500), (0, 0.6, -0.8), 1e8))
        kid = particle.Particle(-12, (0, 0, -500), (0, 0.6, -0.8), 1e7)
        with rng.owned(rng.WeylSource()):
            ev.add_children(ev.roots[0], kid)
        out += [("ListGenerator", generation.ListGenerator([ev])), ("Event", ev), ("Particle", ev.roots[0]),
                ("CTWInteraction", particle.CTWInteraction(ev.roots[0])), ("GQRSInteraction", particle.GQRSInteraction(kid))]
    elif group == "files":
        from ..oracles import h5model as hm
        from ..props import c11
        from pyrex.io import File
        path = os.path.join(tmp, "walk.h5")
        drv = hm.Driver(path, dict(c11.DEFAULTS, write_waveforms=True, write_antenna_triggers=True, write_noise=True, require_trigger=False), 2)
        for i in (0, 2, 4, 6):
            drv.add(c11.EVENTS[i])
        drv.close()
        f = File(path, "r")
        f.open()
        out += [("HDF5Reader", f)] + [("event[%d]" % i, f[i]) for i in range(len(f))]
        out.append(("FileGenerator", __import__("pyrex").generation.FileGenerator(path, slice_range=2)))
    return out


GROUPS = ["signals", "media", "rays", "detector", "particles", "files"]
SKIP = {"close", "open", "clear", "create_event", "get_vertex", "get_direction", "get_particle_type", "get_exit_points", "get_weights"}


def evaluate(case):
    names = _pyrex_names()
    menu = _menu()
    fails_raw = []
    stats = {"reads": 0, "calls": 0, "skipped_methods": 0}
    nontriv = []
    with tempfile.TemporaryDirectory(prefix="c20w-") as tmp:
        try:
            objs = objects(case["group"], tmp)
        except Exception as e:
            d = dead_reference(e, names)
            if d is None and src.exception_origin(e) != "library":
                raise
            objs = []
            fails_raw.append((case["group"], "<construction>", "", d or ("construction failed: %r" % e), src.short_tb(e)))
        for label, obj in objs:
            before = stats["calls"] + stats["reads"]
            walk_object(label, obj, menu, names, fails_raw, stats, skip=SKIP if case["group"] in ("files",) else {"close", "open"})
            if stats["calls"] + stats["reads"] > before:
                nontriv.append("walk|%s|%s" % (case["group"], label))
    fails = []
    seen = set()
    for label, name, args, d, tb in fails_raw:
        key = (label.split("[")[0].split(".")[0], name, d)
        if key in seen:
            continue
        seen.add(key)
        fails.append({"check": "dead-reference-at-run-time", "what": "%s.%s%s: %s | %s" % (label, name, args, d, tb),
                      "tags": {"group": "run:%s.%s" % (label.split("[")[0].split(".")[0], name), "object": label}})
    return {"n": stats["calls"] + stats["reads"], "nontrivial": nontriv, "fails": fails, "stats": stats,
            "sample": {"group": case["group"], "objects": [l for l, _ in objs][:6]}}
