"""Generic runner:  python -m vmc.run C07 [--tier quick|thorough] [--replay F] [--jobs N]

A property module (vmc/props/cNN.py) provides
    PID, LEVEL, RULE, ASSUMPTIONS
    cases(tier, seed)      -> list of JSON-able case dicts (the complete declared space)
    evaluate(case)         -> {"n": evaluations, "nontrivial": [distinct keys],
                               "fails": [ {check, what, tags, replay, size} ... ],
                               "stats": {...}, "states": int, "transitions": int,
                               "sample": anything}
    post(cases, results, tier) (optional) -> {"fails": [...], "coverage": {...}}
Exit codes: 0 property held on everything explored (known findings are printed),
            1 at least one violation not listed as an open known finding,
            2 harness error (including nondeterminism that the harness does not own).
"""
import argparse
import hashlib
import importlib
import json
import os
import sys
import time
import traceback

from .engine import evidence as ev
from .engine import pool
from .engine import src
from .engine.src import HarnessError

_MOD = None


def _load(pid):
    global _MOD
    _MOD = importlib.import_module("vmc.props." + pid.lower())
    return _MOD


def _innermost_lib_frame(exc):
    tb = traceback.extract_tb(exc.__traceback__)
    for fr in reversed(tb):
        if src.is_library_frame(fr.filename):
            return "%s:%s" % (os.path.relpath(fr.filename, src.PYREX_SRC), fr.name)
    return None


def _eval(case):
    try:
        r = _MOD.evaluate(case)
    except HarnessError:
        raise
    except Exception as e:
        if src.exception_origin(e) == "library":
            return {"n": 1, "nontrivial": [], "fails": [{
                "check": "unexpected-exception", "what": src.short_tb(e),
                "tags": {"exc": type(e).__name__, "where": _innermost_lib_frame(e)},
                "replay": case, "size": 0}], "stats": {}}
        raise
    for f in r.get("fails", ()):
        f.setdefault("replay", case)
        f.setdefault("tags", {})
        f.setdefault("size", 0)
    return r


def _digest(r):
    d = {k: r.get(k) for k in ("n", "nontrivial", "fails", "states", "transitions")}
    return hashlib.sha1(json.dumps(ev.jsonable(d), sort_keys=True).encode()).hexdigest()


def replay_file(path):
    """Re-evaluate the single case stored in a replay artefact; returns list of failures."""
    src.activate()
    with open(path) as f:
        fail = json.load(f)
    mod = _load(fail["property"])
    if fail.get("check") == "import-pyrex":
        try:
            importlib.import_module("pyrex")
            return []
        except Exception as e:
            return [src.short_tb(e)]
    r = _eval(fail["replay"])
    return [f for f in r.get("fails", [])]


def _merge_stats(total, s):
    for k, v in (s or {}).items():
        if isinstance(v, dict):
            _merge_stats(total.setdefault(k, {}), v)
        elif k.startswith("max_"):
            total[k] = max(total.get(k, v), v)
        elif k.startswith("min_"):
            total[k] = min(total.get(k, v), v)
        elif isinstance(v, (int, float)):
            total[k] = total.get(k, 0) + v
        else:
            total[k] = v


def main(argv=None):
    ap = argparse.ArgumentParser()
    ap.add_argument("pid")
    ap.add_argument("--tier", default=os.environ.get("VERIF_TIER", "quick"), choices=["quick", "thorough"])
    ap.add_argument("--replay")
    ap.add_argument("--jobs", type=int, default=None)
    ap.add_argument("--only", help="substring filter on case json (debugging; evidence not written)")
    args = ap.parse_args(argv)
    pid = args.pid.upper()
    try:
        seed = int(os.environ.get("VERIF_SEED", "0") or 0)
    except ValueError:
        seed = 0
    src.activate()
    t0 = time.time()

    if args.replay:
        fails = replay_file(args.replay)
        for f in fails:
            print("REPLAY-FAIL %s" % (f if isinstance(f, str) else f.get("what")))
        print("replay: %d failure(s)" % len(fails))
        return 1 if fails else 0

    mod = _load(pid)
    level = mod.LEVEL
    opens, _fixed = ev.load_known(pid)

    # the implementation must at least import (C20 has its own, finer, treatment)
    if not getattr(mod, "NO_IMPORT", False):
        try:
            importlib.import_module("pyrex")
        except Exception as e:
            fail = {"property": pid, "check": "import-pyrex", "what": "import pyrex failed: " + src.short_tb(e),
                    "tags": {"exc": type(e).__name__}, "replay": {"import": "pyrex"}}
            path = ev.write_replay(pid, fail)
            ev.write_evidence(pid, args.tier, seed, level,
                              {"evaluations": 1, "distinct_nontrivial": 0, "rule": mod.RULE,
                               "samples": ["import pyrex"], "exhaustive": False,
                               "explanation": "the package under test cannot be imported"},
                              time.time() - t0, 1, mod.ASSUMPTIONS, {"tree": src.tree_identity()})
            print(fail["what"])
            print("VIOLATION property=%s replay=%s" % (pid, path))
            return 1

    cases = mod.cases(args.tier, seed)
    if args.only:
        cases = [c for c in cases if args.only in json.dumps(ev.jsonable(c), sort_keys=True)]
    if not cases:
        raise HarnessError("empty case list")
    # VERIF_SEED only permutes exploration order
    import random
    rnd = random.Random(seed)
    order = list(range(len(cases)))
    if seed:
        rnd.shuffle(order)
    cases = [cases[i] for i in order]

    results = pool.pmap(_eval, cases, jobs=args.jobs, chunk=getattr(mod, "CHUNK", None))

    # own-the-nondeterminism check: re-run a fixed subset in this process and compare
    ndet = getattr(mod, "DETERMINISM_CASES", 2)
    for i in range(min(ndet, len(cases))):
        again = _eval(cases[i])
        if _digest(again) != _digest(results[i]):
            print("HARNESS-ERROR nondeterministic result for case %s" % json.dumps(ev.jsonable(cases[i]))[:400])
            return 2

    evaluations = 0
    nontrivial = set()
    fails = []
    stats = {}
    states = transitions = 0
    samples = []
    for c, r in zip(cases, results):
        evaluations += int(r.get("n", 1))
        nontrivial.update(r.get("nontrivial", ()))
        fails.extend(r.get("fails", ()))
        _merge_stats(stats, r.get("stats"))
        states += int(r.get("states", 0))
        transitions += int(r.get("transitions", 0))
        if len(samples) < 3 and r.get("sample") is not None:
            samples.append(r["sample"])
    coverage_extra = {}
    if hasattr(mod, "post"):
        p = mod.post(cases, results, args.tier) or {}
        for f in p.get("fails", ()):
            f.setdefault("tags", {})
            f.setdefault("size", 0)
            f.setdefault("replay", {"post": True})
            fails.append(f)
        coverage_extra = p.get("coverage", {})
    if not samples:
        samples = [cases[0]]

    known_hits = {}
    violations = []
    for f in fails:
        e = ev.match_known(f, opens)
        if e is not None:
            known_hits.setdefault(e["id"], [e, 0])[1] += 1
        else:
            violations.append(f)
    for kid, (e, n) in sorted(known_hits.items()):
        print("KNOWN-FINDING: property=%s %s: %s (%d occurrence(s) this run)" % (pid, kid, e["what"], n))

    # group violations: one VIOLATION line per distinct check/group, smallest first
    groups = {}
    for f in violations:
        g = (f.get("check"), json.dumps(ev.jsonable(f.get("tags", {}).get("group")), sort_keys=True))
        if g not in groups or f.get("size", 0) < groups[g].get("size", 0):
            groups[g] = f
    vio_summ = []
    for g, f in sorted(groups.items(), key=lambda kv: (kv[1].get("size", 0), kv[0]))[:20]:
        f = dict(f)
        f["property"] = pid
        path = ev.write_replay(pid, f)
        print("  %s: %s" % (f.get("check"), str(f.get("what"))[:600]))
        print("VIOLATION property=%s replay=%s" % (pid, path))
        vio_summ.append({"check": f.get("check"), "what": str(f.get("what"))[:300], "replay": path})

    coverage = {"evaluations": evaluations, "distinct_nontrivial": len(nontrivial), "rule": mod.RULE,
                "samples": samples, "exhaustive": True, "cases": len(cases), "stats": stats}
    if level == "model_checking":
        coverage.update({"states": states, "transitions": transitions,
                         "traces_validated_against_impl": transitions})
    coverage.update(coverage_extra)
    if len(nontrivial) < 2 and not violations:
        print("HARNESS-ERROR vacuous exploration: %d distinct non-trivial cases" % len(nontrivial))
        return 2
    ev.write_evidence(pid, args.tier, seed, level, coverage, time.time() - t0, len(violations),
                      mod.ASSUMPTIONS,
                      {"tree": src.tree_identity(), "violation_summaries": vio_summ,
                       "known_findings_seen": {k: v[1] for k, v in known_hits.items()},
                       "failures_total": len(fails)})
    print("%s %s: cases=%d evaluations=%d nontrivial=%d states=%d transitions=%d known=%d violations=%d wall=%.1fs"
          % (pid, args.tier, len(cases), evaluations, len(nontrivial), states, transitions,
             sum(v[1] for v in known_hits.values()), len(violations), time.time() - t0))
    return 1 if violations else 0


if __name__ == "__main__":
    try:
        sys.exit(main())
    except HarnessError as e:
        print("HARNESS-ERROR %s" % e)
        sys.exit(2)
