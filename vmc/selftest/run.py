"""Self-tests of the explorer engines on toy systems with known sizes."""
import math
import sys

from ..engine import choice, graph, rng
from ..engine.src import HarnessError


def t_choice_counts():
    # full product: 3 x 2 x 4 = 24 paths
    def body(ch):
        return (ch.choose(3, "a"), ch.choose(2, "b"), ch.choose(4, "c"))
    full = [r for _, r in choice.explore(body)]
    assert len(full) == 24 and len(set(full)) == 24, len(full)
    # deviation bound d: number of tuples with at most d non-zero entries
    def count(d):
        n = 0
        for a in range(3):
            for b in range(2):
                for c in range(4):
                    n += ((a != 0) + (b != 0) + (c != 0)) <= d
        return n
    for d in range(4):
        got = [r for _, r in choice.explore(body, bound=d)]
        assert len(got) == count(d) == len(set(got)), (d, len(got), count(d))
    # data-dependent tree: second menu depends on the first answer
    def body2(ch):
        a = ch.choose(3, "a")
        return (a,) + tuple(ch.choose(2, "x%d" % i) for i in range(a))
    assert len(list(choice.explore(body2))) == 1 + 2 + 4


def t_choice_divergence():
    state = {"n": 0}

    def flaky(ch):
        state["n"] += 1
        ch.choose(2, "a")
        ch.choose(2, "b%d" % state["n"])   # label differs between executions -> not owned
        ch.choose(2, "c")
    try:
        list(choice.explore(flaky))
    except HarnessError as e:
        assert "not owned" in str(e)
    else:
        raise AssertionError("divergence not detected")


def t_bfs_counter():
    # two counters mod 3 and mod 4 with inc actions: 12 states, 24 transitions
    def step(st, a):
        st = list(st)
        st[a] = (st[a] + 1) % (3, 4)[a]
        return st
    res = graph.bfs([("zero", lambda: [0, 0])], [0, 1], step, lambda s, h, a: [], tuple, max_depth=20)
    assert res.states == 12 and res.transitions == 24, (res.states, res.transitions)
    # invariant violation is found with the shortest history
    res = graph.bfs([("zero", lambda: [0, 0])], [0, 1], step,
                    lambda s, h, a: [{"what": "hit"}] if s == [2, 1] else [], tuple, max_depth=20)
    assert res.failures and min(len(h) for h, _ in res.failures) == 4
    # rebuild mode gives the same graph
    def rebuild(factory, hist):
        st = factory()
        for a in hist:
            st = step(st, a)
        return st
    res2 = graph.bfs([("zero", lambda: [0, 0])], [0, 1], step, lambda s, h, a: [], tuple, max_depth=20,
                     rebuild=rebuild)
    assert (res2.states, res2.transitions) == (12, 24)


def t_rng():
    import numpy as np
    s1 = rng.WeylSource()
    with rng.owned(s1):
        a = [np.random.rand(), np.random.random_sample(), float(np.random.uniform(2, 4))]
        v = np.random.rand(3)
        n = np.random.normal(0, 1, size=4)
        r = np.random.rayleigh(1 / math.sqrt(2), size=2)
        try:
            np.random.seed(1)
        except HarnessError:
            pass
        else:
            raise AssertionError("seed not intercepted")
    s2 = rng.WeylSource()
    with rng.owned(s2):
        b = [np.random.rand(), np.random.random_sample(), float(np.random.uniform(2, 4))]
    assert a == b and 2 <= a[2] < 4 and v.shape == (3,) and n.shape == (4,) and (r >= 0).all()
    assert abs(rng._norm_ppf(0.975) - 1.959963984540054) < 1e-9
    assert np.random.rand.__self__ is not None  # restored to numpy's own
    # script source: choice points
    def body(ch):
        src_ = rng.ScriptSource(chooser=ch, lattice=[0.0, 0.5], points={1})
        with rng.owned(src_):
            return (np.random.rand(), np.random.rand(), np.random.rand())
    outs = [r for _, r in choice.explore(body)]
    assert len(outs) == 3 and {o[1] for o in outs} >= {0.0, 0.5}
    assert len({o[0] for o in outs}) == 1


def main():
    tests = [t_choice_counts, t_choice_divergence, t_bfs_counter, t_rng]
    for t in tests:
        t()
        print("selftest ok:", t.__name__)
    return 0


if __name__ == "__main__":
    sys.exit(main())
